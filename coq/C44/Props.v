(* C44 — property theorems (statements pinned; proofs in Proofs.v). *)
From GV Require Import lib.Base C44.Model C44.Proofs.
Open Scope Z_scope.

(* ---------- creation: validate_and_init accepts only well-formed, token-chained, duplicate-free paths ---------- *)
Theorem c44_creation_validates :
  forall cur_tokens plen slen paths tin1 tin2 tout1 tout2 m1 m2 toks,
  validate_and_init cur_tokens plen slen paths tin1 tin2 tout1 tout2 = Ok (m1, m2, toks) ->
  let q1 := firstn (Z.to_nat plen) paths in
  let q2 := firstn (Z.to_nat slen) (skipn (Z.to_nat plen) paths) in
  plen + slen <= MAX_STEPS /\ plen + slen <= Z.of_nat (length paths) /\
  NoDup (map p_addr q1) /\ NoDup (map p_addr q2) /\
  Forall (fun p => p_store_ok p = true /\ p_enabled p = true /\ p_long p <> p_short p) (q1 ++ q2) /\
  m1 = map p_mt q1 /\ m2 = map p_mt q2 /\
  chain q1 tin1 = Some tout1 /\ chain q2 tin2 = Some tout2 /\
  NoDup toks /\ Z.of_nat (length toks) <= MAX_TOKENS /\
  (forall t, In t cur_tokens -> In t toks) /\
  (forall p, In p (q1 ++ q2) -> In (p_index p) toks /\ In (p_long p) toks /\ In (p_short p) toks).
Proof. exact validate_and_init_spec. Qed.

(* ---------- execution of one side ---------- *)
(* On success: the current market is not among the swap markets; exactly one hop per declared market, in
   order; every hop market has two distinct tokens, takes the running token and amount and hands on the other
   token and its output amount; the run ends in the declared token with the last hop's output; the recorded
   balances of all markets involved add up to the same totals per token as before; one abstract single-market
   swap is consumed per hop. *)
Theorem c44_one_side_follows_path : forall is_into s path expected tok amt s' out,
  one_side is_into s path expected tok amt = Ok (s', out) ->
  find (s_ms s) (mk_id (s_cur s)) = None /\
  exists hops,
    follows (lk s) path tok amt hops expected out /\
    map hp_market hops = path /\ chain_amounts amt hops out /\
    s_hops s' = rev hops ++ s_hops s /\ s_outs s = map hp_out hops ++ s_outs s' /\
    (forall T, wtotal s' T = wtotal s T) /\
    (forall id, lk s' id = lk s id).
Proof.
  intros. apply one_side_spec in H as (Hc & hops & (H1 & H2 & H3 & H4 & H5 & H6) & F).
  split; auto. exists hops. repeat split; auto.
  - eapply follows_markets; eauto.
  - eapply follows_chain_amounts; eauto.
Qed.

(* ---------- both sides ---------- *)
Theorem c44_revertible_swap_follows_paths :
  forall is_into s p1 p2 exp1 exp2 tin1 tin2 a1 a2 s' o1 o2,
  revertible_swap is_into s p1 p2 exp1 exp2 tin1 tin2 a1 a2 = Ok (s', o1, o2) ->
  NoDup p1 /\ NoDup p2 /\
  exists h1 h2,
    s_hops s' = rev (h1 ++ h2) ++ s_hops s /\
    (forall T, wtotal s' T = wtotal s T) /\
    match tin1 with
    | Some t => if a1 =? 0 then h1 = [] /\ o1 = 0 else follows (lk s) p1 t a1 h1 exp1 o1
    | None => h1 = [] /\ o1 = 0
    end /\
    match tin2 with
    | Some t => if a2 =? 0 then h2 = [] /\ o2 = 0 else follows (lk s) p2 t a2 h2 exp2 o2
    | None => h2 = [] /\ o2 = 0
    end.
Proof.
  intros. apply revertible_swap_spec in H as (N1 & N2 & h1 & h2 & (X1 & _ & _ & _ & _ & X6) & F1 & F2).
  split; auto. split; auto. exists h1, h2. auto.
Qed.

(* what `follows` says, spelled out *)
Theorem c44_follows_meaning : forall lk0 path tok amt hops tok' amt',
  follows lk0 path tok amt hops tok' amt' ->
  map hp_market hops = path /\ chain_amounts amt hops amt' /\
  Forall (fun mt => exists l s, lk0 mt = Some (l, s) /\ l <> s) path.
Proof.
  intros. split; [eapply follows_markets; eauto|]. split; [eapply follows_chain_amounts; eauto|].
  eapply follows_no_pure; eauto.
Qed.

(* ---------- no-op steps and duplicates ---------- *)
Theorem c44_noop_step_rejected : forall m tok amt outs,
  is_pure m = true -> exists e, do_swap m tok amt outs = Err e.
Proof. exact do_swap_pure. Qed.

Theorem c44_duplicate_path_rejected_at_execution :
  forall is_into s p1 p2 exp1 exp2 tin1 tin2 a1 a2,
  ~ NoDup p1 \/ ~ NoDup p2 ->
  exists e, revertible_swap is_into s p1 p2 exp1 exp2 tin1 tin2 a1 a2 = Err e.
Proof.
  intros. destruct (revertible_swap is_into s p1 p2 exp1 exp2 tin1 tin2 a1 a2) as [[[s' o1] o2]|e] eqn:E; eauto.
  apply revertible_swap_spec in E as (N1 & N2 & _). tauto.
Qed.

(* ---------- the bank layer moves exactly the swapped amount ---------- *)
Theorem c44_record_in_exact : forall m tok amt m',
  rec_in m tok amt = Ok m' ->
  same_tokens m m' /\ (tok = mk_long m \/ tok = mk_short m) /\
  forall T, bal_of m' T = bal_of m T + (if T =? tok then amt else 0).
Proof. exact rec_in_spec. Qed.

Theorem c44_record_out_exact : forall m tok amt m',
  rec_out m tok amt = Ok m' ->
  same_tokens m m' /\ (tok = mk_long m \/ tok = mk_short m) /\
  forall T, bal_of m' T = bal_of m T - (if T =? tok then amt else 0).
Proof. exact rec_out_spec. Qed.

(* ---------- non-vacuity ---------- *)
Definition demo_ms : list mk := [mkMk 1 10 11 500 500; mkMk 2 11 12 500 500].
Definition demo_cur : mk := mkMk 0 12 13 500 500.

(* Into the current market 0 (tokens 12/13): 100 of token 10 through markets 1, 2 and 0 *)
Example c44_demo_into :
  match revertible_swap true (mkSt demo_ms demo_cur [90; 80; 70] []) [1; 2; 0] [] 13 13 (Some 10) None 100 0 with
  | Ok (s, o1, o2) =>
      o1 = 70 /\ o2 = 0 /\ map hp_market (rev (s_hops s)) = [1; 2; 0] /\
      s_ms s = [mkMk 1 10 11 500 410; mkMk 2 11 12 590 420] /\ s_cur s = mkMk 0 12 13 580 500
  | Err _ => False
  end.
Proof. vm_compute. repeat split. Qed.

(* a pure market on the path, a duplicate, and a wrong declared output all fail *)
Example c44_demo_rejects :
  revertible_swap true (mkSt [mkMk 5 12 12 500 0] demo_cur [90] []) [5] [] 12 12 (Some 12) None 100 0 = Err 3 /\
  revertible_swap true (mkSt demo_ms demo_cur [90; 80; 70] []) [1; 1] [] 13 13 (Some 10) None 100 0 = Err 1 /\
  revertible_swap false (mkSt demo_ms demo_cur [90; 80; 70] []) [2; 1] [] 11 11 (Some 12) None 100 0 = Err 1.
Proof. vm_compute. repeat split. Qed.
