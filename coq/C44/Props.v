From GV Require Import lib.Base C44.Model C44.Proofs.
Open Scope Z_scope.
Theorem c44_placeholder : True. Proof. exact I. Qed.
