(* C37 — property theorems only (treasury factors stay valid; GT buyback payouts are
   proportional).  Each is closed by a lemma of Proofs.v. *)
From GV Require Import lib.Base C01.Model C37.Model C37.Proofs.
Open Scope Z_scope.

(* GT and buyback factors never exceed 100%, over any history of updates from a zeroed Config *)
Theorem c37_factors_le_unit : forall unit ops, 0 <= unit ->
  let c := fold_left (apply_cop unit) ops (MkC 0 0) in c_gt c <= unit /\ c_buyback c <= unit.
Proof. exact factors_le_unit. Qed.

Theorem c37_factor_above_unit_rejected : forall unit c f, unit < f ->
  set_gt_factor unit c f = Err 5 /\ set_buyback_factor unit c f = Err 5.
Proof. exact set_factor_above_unit_rejected. Qed.

(* one exchange claim: refused iff it exceeds the remaining confirmed GT; otherwise, per token, it
   pays the current balance times the GT amount over the remaining confirmed GT, rounded down
   ([claim1]), and reduces the remaining GT by the claim *)
Theorem c37_claim_exact : forall wa, 1 <= wa -> forall st g, wf_bank wa st -> 0 <= g ->
  (b_rem st < g -> claim wa st g = Err 6) /\
  (g <= b_rem st ->
     claim wa st g =
       Ok (MkB (b_conf st) (b_rem st - g)
               (map (fun kv => (fst kv, snd (fst (claim1 (snd kv) (b_rem st) g)))) (b_bal st)),
           if g =? 0 then []
           else map (fun kv => (fst kv, snd kv, fst (fst (claim1 (snd kv) (b_rem st) g))))
                    (filter (fun kv => negb (snd kv =? 0)) (b_bal st)))).
Proof. exact claim_spec. Qed.

Theorem c37_claim1_le_balance : forall B G g, 0 <= B -> 0 <= g <= G ->
  let '(p, B', G') := claim1 B G g in
  0 <= p <= B /\ B' = B - p /\ G' = G - g /\ B * G' <= B' * G /\
  (g <> 0 -> p = B * g / G /\ (g = G -> B' = 0)).
Proof. exact claim1_spec. Qed.

(* the claim sequence as a pure induction, per token: payouts never exceed what the bank holds
   (they sum, with the final balance, to the original balance), every claimant gets at least the
   floor share of the ORIGINAL balance, and when the remaining GT reaches zero the balance is zero *)
Theorem c37_claim_sequence : forall B0 G0 gs, 0 <= B0 -> 0 <= G0 ->
  Forall (fun g => 0 <= g) gs -> sumZ gs <= G0 ->
  let '(ps, Bf, Gf) := run_claims B0 G0 gs in
  length ps = length gs /\
  Forall2 (fun g p => 0 <= p /\ (g <> 0 -> B0 * g / G0 <= p)) gs ps /\
  sumZ ps + Bf = B0 /\ 0 <= Bf /\ Gf = G0 - sumZ gs /\
  (Gf = 0 -> 0 < sumZ gs -> Bf = 0).
Proof. exact claim_sequence. Qed.

(* the bank-level loop refines that arithmetic for every token, and never fails as long as the
   claims fit into the remaining confirmed GT *)
Theorem c37_bank_claims_refine : forall wa, 1 <= wa -> forall gs st, wf_bank wa st ->
  Forall (fun g => 0 <= g) gs -> sumZ gs <= b_rem st ->
  exists st' rows, bank_claims wa st gs = Ok (st', rows) /\
    b_rem st' = b_rem st - sumZ gs /\ b_conf st' = b_conf st /\ length rows = length gs /\
    Forall2 (fun kv kv' => fst kv' = fst kv /\
               snd kv' = snd (fst (run_claims (snd kv) (b_rem st) gs))) (b_bal st) (b_bal st').
Proof. exact bank_claims_refine. Qed.

(* the last claim drains the bank *)
Theorem c37_last_claim_drains : forall wa, 1 <= wa -> forall st gs, wf_bank wa st ->
  Forall (fun g => 0 <= g) gs -> sumZ gs = b_rem st -> 0 < b_rem st ->
  exists st' rows, bank_claims wa st gs = Ok (st', rows) /\ b_rem st' = 0 /\
    Forall (fun kv => snd kv = 0) (b_bal st') /\ map fst (b_bal st') = map fst (b_bal st).
Proof. exact all_claims_drain. Qed.

(* non-vacuity *)
Example c37_ex1 : run_claims 1000 10 [3; 0; 2; 5] = ([300; 0; 200; 500], 0, 0)
  /\ run_claims 7 3 [1; 1; 1] = ([2; 2; 3], 0, 0).
Proof. vm_compute. split; reflexivity. Qed.
Example c37_ex2 :
  bank_claims 64 (MkB true 3 [(1, 7); (2, 0); (5, 100)]) [1; 1; 1]
  = Ok (MkB true 0 [(1, 0); (2, 0); (5, 0)],
        [[(1, 7, 2); (5, 100, 33)]; [(1, 5, 2); (5, 67, 33)]; [(1, 3, 3); (5, 34, 34)]]).
Proof. vm_compute. reflexivity. Qed.
