(* C37 — treasury factors and GT-bank buyback claims:
   programs/treasury/src/states/config.rs (set_gt_factor / set_buyback_factor),
   states/gt_bank.rs (record_transferred_in/out, record_all_transferred_out, reserve_balances,
   confirm_unchecked, record_claimed) and the transfer loop of
   instructions/gt_bank.rs CompleteGtExchange::execute (per token: balance * gt / remaining, floor;
   record_transferred_out; finally record_claimed).
   [wa] = width of token / GT amounts (u64 in the code), [wv] = width of usd values (u128).
   Definitions only.

   Error codes: 2 TokenAmountOverflow, 3 NotFound, 4 NotEnoughTokenAmount, 5 InvalidArgument,
   6 Internal, 7 PreconditionsAreNotMet, 9 ExceedMaxLengthLimit. *)
From GV Require Import lib.Base C01.Model.
Open Scope Z_scope.

(* ---------- Config ---------- *)
Record config := MkC { c_gt : Z; c_buyback : Z }.

Section Config.
  Variable unit : Z.
  (* Config::set_gt_factor : returns the previous factor *)
  Definition set_gt_factor (c : config) (f : Z) : res (config * Z) :=
    if unit <? f then Err 5 else if c_gt c =? f then Err 7 else Ok (MkC f (c_buyback c), c_gt c).
  Definition set_buyback_factor (c : config) (f : Z) : res (config * Z) :=
    if unit <? f then Err 5 else if c_buyback c =? f then Err 7 else Ok (MkC (c_gt c) f, c_buyback c).

  Inductive cop := CGt (f : Z) | CBuy (f : Z).
  Definition apply_cop (c : config) (o : cop) : config :=
    match o with
    | CGt f => match set_gt_factor c f with Ok (c', _) => c' | Err _ => c end
    | CBuy f => match set_buyback_factor c f with Ok (c', _) => c' | Err _ => c end
    end.
End Config.

(* ---------- GT bank ---------- *)
Definition MAX_TOKENS : Z := 16.

(* balances: association list in the fixed map's iteration order (sorted by token key) *)
Record bank := MkB { b_conf : bool; b_rem : Z; b_bal : list (Z * Z) }.

Definition empty_bank : bank := MkB false 0 [].

Fixpoint get (t : Z) (l : list (Z * Z)) : option Z :=
  match l with
  | [] => None
  | (k, v) :: r => if k =? t then Some v else get t r
  end.

Fixpoint set_bal (t v : Z) (l : list (Z * Z)) : list (Z * Z) :=
  match l with
  | [] => []
  | (k, x) :: r => if k =? t then (k, v) :: r else (k, x) :: set_bal t v r
  end.

Fixpoint insert_sorted (t v : Z) (l : list (Z * Z)) : list (Z * Z) :=
  match l with
  | [] => [(t, v)]
  | (k, x) :: r => if t <? k then (t, v) :: (k, x) :: r else (k, x) :: insert_sorted t v r
  end.

Definition with_bal (st : bank) (l : list (Z * Z)) : bank := MkB (b_conf st) (b_rem st) l.

Section Bank.
  Variables wa wv : Z.

  (* GtBank::record_transferred_in *)
  Definition record_in (st : bank) (t a : Z) : res bank :=
    match get t (b_bal st) with
    | Some cur => n <-- of_opt 2 (uadd wa cur a) ;; Ok (with_bal st (set_bal t n (b_bal st)))
    | None =>
        if MAX_TOKENS <=? Z.of_nat (length (b_bal st)) then Err 9
        else n <-- of_opt 2 (uadd wa 0 a) ;; Ok (with_bal st (insert_sorted t n (b_bal st)))
    end.

  (* GtBank::record_transferred_out *)
  Definition record_out (st : bank) (t a : Z) : res bank :=
    if a =? 0 then Ok st else
    match get t (b_bal st) with
    | None => Err 3
    | Some cur => n <-- of_opt 4 (usub wa cur a) ;; Ok (with_bal st (set_bal t n (b_bal st)))
    end.

  (* GtBank::record_all_transferred_out *)
  Definition all_out (st : bank) : bank := with_bal st (map (fun kv => (fst kv, 0)) (b_bal st)).

  (* GtBank::reserve_balances (a failing call is rolled back by the transaction) *)
  Fixpoint reserve_list (num den : Z) (l : list (Z * Z)) : res (list (Z * Z)) :=
    match l with
    | [] => Ok []
    | (k, a) :: r =>
        if a =? 0 then (r' <-- reserve_list num den r ;; Ok ((k, a) :: r'))
        else
          x <-- of_opt 2 (y <- mul_div wv a num den ;; chk_u wa y) ;;
          if a <? x then Err 6 else (r' <-- reserve_list num den r ;; Ok ((k, x) :: r'))
    end.
  Definition reserve (st : bank) (num den : Z) : res bank :=
    if den <? num then Err 5 else l <-- reserve_list num den (b_bal st) ;; Ok (with_bal st l).

  (* GtBank::confirm_unchecked *)
  Definition confirm (st : bank) (g : Z) : res bank :=
    if b_conf st then Err 7 else Ok (MkB true g (b_bal st)).

  (* GtBank::record_claimed *)
  Definition record_claimed (st : bank) (g : Z) : res bank :=
    n <-- of_opt 5 (usub wa (b_rem st) g) ;; Ok (MkB (b_conf st) n (b_bal st)).

  (* the transfer loop of CompleteGtExchange::execute: rows (token, balance before, paid) for
     the tokens with a non-zero balance, in map order; the balances list after *)
  Fixpoint claim_list (g total : Z) (l : list (Z * Z)) : res (list (Z * Z) * list (Z * Z * Z)) :=
    match l with
    | [] => Ok ([], [])
    | (k, b) :: r =>
        if b =? 0 then (x <-- claim_list g total r ;; Ok ((k, b) :: fst x, snd x))
        else
          amt <-- of_opt 2 (mul_div wa b g total) ;;
          (* record_transferred_out(token, amt) *)
          nb <-- (if amt =? 0 then Ok b else of_opt 4 (usub wa b amt)) ;;
          x <-- claim_list g total r ;;
          Ok ((k, nb) :: fst x, (k, b, amt) :: snd x)
    end.

  Definition claim (st : bank) (g : Z) : res (bank * list (Z * Z * Z)) :=
    if g =? 0 then Ok (st, []) else
    let total := b_rem st in
    if total <? g then Err 6 else
    x <-- claim_list g total (b_bal st) ;;
    st' <-- record_claimed (with_bal st (fst x)) g ;;
    Ok (st', snd x).
End Bank.

(* ---------- the pure per-token claim arithmetic used by the theorems ---------- *)
(* one claim of [g] out of remaining [G] against balance [B] : (paid, new balance, new remaining);
   a zero claim returns before the loop, exactly as the instruction does *)
Definition claim1 (B G g : Z) : Z * Z * Z :=
  if g =? 0 then (0, B, G) else (B * g / G, B - B * g / G, G - g).

(* a whole sequence of claims: list of payouts and the final (balance, remaining) *)
Fixpoint run_claims (B G : Z) (gs : list Z) : list Z * Z * Z :=
  match gs with
  | [] => ([], B, G)
  | g :: r =>
      let '(p, B', G') := claim1 B G g in
      let '(ps, Bf, Gf) := run_claims B' G' r in
      (p :: ps, Bf, Gf)
  end.

(* a sequence of exchange claims on the bank; stops at the first refused claim *)
Fixpoint bank_claims (wa : Z) (st : bank) (gs : list Z) : res (bank * list (list (Z * Z * Z))) :=
  match gs with
  | [] => Ok (st, [])
  | g :: r =>
      x <-- claim wa st g ;;
      y <-- bank_claims wa (fst x) r ;;
      Ok (fst y, snd x :: snd y)
  end.
