(* C37 — correspondence and oracle for harness/src/bin/c37.rs.
   Two kinds of histories: treasury Config factor updates, and a GT bank life cycle
   (deposits / withdrawals / reserve / confirm, then exchange claims). *)
From GV Require Import lib.Base C01.Model.
From GV Require Export C37.Model.
Open Scope Z_scope.

Inductive cstep :=
| SGt (f : Z) (r : res Z) (gt_after buy_after : Z)      (* set_gt_factor: Ok previous / Err; getters after *)
| SBuy (f : Z) (r : res Z) (gt_after buy_after : Z).

Inductive bstep :=
| SIn (t a code : Z)                                       (* record_transferred_in; 0 = Ok *)
| SOut (t a code : Z)                                      (* record_transferred_out *)
| SAllOut
| SReserve (num den code : Z)
| SConfirm (g code : Z)
| SClaim (g code : Z) (rows : list (Z * Z * Z)) (rem_after : Z)   (* rows: (token, balance before, paid) *)
| SSnap (bal : list (Z * Z)) (rem : Z).                    (* observation: all balances, remaining GT *)

Inductive case :=
| CConfig (dec : Z) (steps : list cstep)
| CBank (steps : list bstep).

Definition reqb (a b : res Z) : bool :=
  match a, b with Ok x, Ok y => x =? y | Err x, Err y => x =? y | _, _ => false end.
Fixpoint baleqb (a b : list (Z * Z)) : bool :=
  match a, b with
  | [], [] => true
  | (k, v) :: r, (k', v') :: r' => (k =? k') && (v =? v') && baleqb r r'
  | _, _ => false
  end.
Fixpoint rowseqb (a b : list (Z * Z * Z)) : bool :=
  match a, b with
  | [], [] => true
  | (k, v, p) :: r, (k', v', p') :: r' => (k =? k') && (v =? v') && (p =? p') && rowseqb r r'
  | _, _ => false
  end.

Fixpoint corr_c (unit : Z) (c : config) (l : list cstep) : bool :=
  match l with
  | [] => true
  | SGt f r g b :: rest =>
      let m := set_gt_factor unit c f in
      let c' := match m with Ok (c', _) => c' | Err _ => c end in
      reqb (match m with Ok (_, p) => Ok p | Err e => Err e end) r && (c_gt c' =? g) && (c_buyback c' =? b) &&
      corr_c unit c' rest
  | SBuy f r g b :: rest =>
      let m := set_buyback_factor unit c f in
      let c' := match m with Ok (c', _) => c' | Err _ => c end in
      reqb (match m with Ok (_, p) => Ok p | Err e => Err e end) r && (c_gt c' =? g) && (c_buyback c' =? b) &&
      corr_c unit c' rest
  end.

Definition code_of {A} (r : res A) : Z := match r with Ok _ => 0 | Err e => e end.
Definition st_of (r : res bank) (st : bank) : bank := match r with Ok s => s | Err _ => st end.

Fixpoint corr_bk (st : bank) (l : list bstep) : bool :=
  match l with
  | [] => true
  | SIn t a code :: r => let m := record_in 64 st t a in (code_of m =? code) && corr_bk (st_of m st) r
  | SOut t a code :: r => let m := record_out 64 st t a in (code_of m =? code) && corr_bk (st_of m st) r
  | SAllOut :: r => corr_bk (all_out st) r
  | SReserve n d code :: r => let m := reserve 64 128 st n d in (code_of m =? code) && corr_bk (st_of m st) r
  | SConfirm g code :: r => let m := confirm st g in (code_of m =? code) && corr_bk (st_of m st) r
  | SClaim g code rows rem :: r =>
      match claim 64 st g with
      | Ok (st', rows') => (code =? 0) && rowseqb rows' rows && (b_rem st' =? rem) && corr_bk st' r
      | Err e => (code =? e) && corr_bk st r
      end
  | SSnap bal rem :: r => baleqb (b_bal st) bal && (b_rem st =? rem) && corr_bk st r
  end.

Definition corr_b (c : case) : bool :=
  match c with
  | CConfig dec steps => corr_c (10 ^ dec) (MkC 0 0) steps
  | CBank steps => corr_bk empty_bank steps
  end.

(* ---------- the property on the implementation's outputs ---------- *)
(* factors never exceed 100% after any update; an update above 100% is rejected *)
Fixpoint oracle_c (u : Z) (l : list cstep) : bool :=
  match l with
  | [] => true
  | SGt f r g b :: rest =>
      (g <=? u) && (b <=? u) && (if u <? f then match r with Err _ => true | Ok _ => false end
                                 else match r with Ok _ => g =? f | Err e => (e =? 7) && (g =? f) end) &&
      oracle_c u rest
  | SBuy f r g b :: rest =>
      (g <=? u) && (b <=? u) && (if u <? f then match r with Err _ => true | Ok _ => false end
                                 else match r with Ok _ => b =? f | Err e => (e =? 7) && (b =? f) end) &&
      oracle_c u rest
  end.

Fixpoint lookup (t : Z) (l : list (Z * Z)) : Z :=
  match l with [] => 0 | (k, v) :: r => if k =? t then v else lookup t r end.
Fixpoint update (t v : Z) (l : list (Z * Z)) : list (Z * Z) :=
  match l with [] => [(t, v)] | (k, x) :: r => if k =? t then (k, v) :: r else (k, x) :: update t v r end.

(* one claim row against the oracle's own view [cur] of the current balances, the balances
   [orig] / total [g0] at confirmation, and the remaining GT [grem] before the claim *)
Definition row_ok (g grem g0 : Z) (orig cur : list (Z * Z)) (row : Z * Z * Z) : bool :=
  let '(t, before, paid) := row in
  (before =? lookup t cur) &&
  (* current balance times GT amount over remaining confirmed GT, rounded down *)
  (grem * paid <=? before * g) && (before * g <? grem * paid + grem) &&
  (* never more than the bank holds *)
  (0 <=? paid) && (paid <=? before) &&
  (* at least the floor share of the original balance *)
  (lookup t orig * g / g0 <=? paid).

Fixpoint apply_rows (cur : list (Z * Z)) (rows : list (Z * Z * Z)) : list (Z * Z) :=
  match rows with
  | [] => cur
  | (t, before, paid) :: r => apply_rows (update t (before - paid) cur) r
  end.

(* every token with a non-zero current balance has a row *)
Definition rows_cover (cur : list (Z * Z)) (rows : list (Z * Z * Z)) : bool :=
  forallb (fun kv => (snd kv =? 0) || existsb (fun row => fst (fst row) =? fst kv) rows) cur.

(* oracle phases: 0 = not confirmed; 1 = confirmed, balances being reserved (as in
   ConfirmGtBuyback: confirm_unchecked, then reserve_balances / record_all_transferred_out),
   the next SSnap fixes the ORIGINAL balances; 2 = claims. *)
Fixpoint oracle_bk (ph : Z) (g0 grem : Z) (orig cur : list (Z * Z)) (l : list bstep) : bool :=
  match l with
  | [] => true
  | SSnap bal rem :: r =>
      if ph =? 2 then
        (* observations agree with the oracle's own bookkeeping *)
        forallb (fun kv => snd kv =? lookup (fst kv) cur) bal && (rem =? grem) &&
        oracle_bk 2 g0 grem orig cur r
      else if ph =? 1 then (rem =? g0) && oracle_bk 2 g0 grem bal bal r
      else oracle_bk 0 g0 grem orig bal r
  | SConfirm g code :: r =>
      if code =? 0 then (ph =? 0) && oracle_bk 1 g g [] [] r
      else negb (ph =? 0) && oracle_bk ph g0 grem orig cur r
  | SClaim g code rows rem :: r =>
      if code =? 0 then
        (ph =? 2) && (g <=? grem) && (rem =? grem - g) &&
        (if g =? 0 then match rows with [] => true | _ => false end
         else forallb (row_ok g grem g0 orig cur) rows && rows_cover cur rows) &&
        (let cur' := apply_rows cur rows in
         (* the last claim drains the bank *)
         (if (rem =? 0) && negb (g =? 0) then forallb (fun kv => snd kv =? 0) cur' else true) &&
         oracle_bk 2 g0 rem orig cur' r)
      else
        (* a claim is refused only when it exceeds the remaining confirmed GT *)
        (ph =? 2) && (grem <? g) && oracle_bk ph g0 grem orig cur r
  | SIn _ _ _ :: r | SOut _ _ _ :: r =>
      (ph =? 0) && oracle_bk ph g0 grem orig cur r
  | SAllOut :: r | SReserve _ _ _ :: r =>
      negb (ph =? 2) && oracle_bk ph g0 grem orig cur r
  end.

Definition oracle_b (c : case) : bool :=
  match c with
  | CConfig dec steps => oracle_c (10 ^ dec) steps
  | CBank steps => oracle_bk 0 0 0 [] [] steps
  end.

Definition known_b (c : case) : Z := 0.
