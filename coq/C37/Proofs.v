(* C37 — lemmas: factor invariant, per-token claim arithmetic (pure induction), and the
   refinement of the bank-level claim loop to it. *)
From GV Require Import lib.Base lib.DivLemmas C01.Model C01.Proofs C37.Model.
Open Scope Z_scope.
Ltac Zify.zify_post_hook ::= Z.div_mod_to_equations.

Lemma rbind_ok {A B} (a : res A) (f : A -> res B) r :
  rbind a f = Ok r <-> exists x, a = Ok x /\ f x = Ok r.
Proof.
  destruct a; simpl; split; intros H; eauto.
  - destruct H as [x [E H]]. injection E as <-. exact H.
  - discriminate.
  - destruct H as [x [E _]]; discriminate.
Qed.
Lemma of_opt_ok {A} e (o : option A) x : of_opt e o = Ok x <-> o = Some x.
Proof. destruct o; simpl; split; intros H; try discriminate; congruence. Qed.

(* ================= Config ================= *)
Section Cfg.
  Variable unit : Z.
  Definition cfg_inv (c : config) : Prop := c_gt c <= unit /\ c_buyback c <= unit.

  Lemma set_gt_factor_ok c f c' p : set_gt_factor unit c f = Ok (c', p) ->
    f <= unit /\ c_gt c' = f /\ c_buyback c' = c_buyback c /\ p = c_gt c /\ f <> c_gt c.
  Proof.
    unfold set_gt_factor. destruct (unit <? f) eqn:E1; [discriminate|]. destruct (c_gt c =? f) eqn:E2; [discriminate|].
    intros H; injection H as <- <-. simpl. lia.
  Qed.
  Lemma set_buyback_factor_ok c f c' p : set_buyback_factor unit c f = Ok (c', p) ->
    f <= unit /\ c_buyback c' = f /\ c_gt c' = c_gt c /\ p = c_buyback c /\ f <> c_buyback c.
  Proof.
    unfold set_buyback_factor. destruct (unit <? f) eqn:E1; [discriminate|]. destruct (c_buyback c =? f) eqn:E2; [discriminate|].
    intros H; injection H as <- <-. simpl. lia.
  Qed.
  Lemma set_factor_above_unit_rejected c f : unit < f ->
    set_gt_factor unit c f = Err 5 /\ set_buyback_factor unit c f = Err 5.
  Proof. intros H. unfold set_gt_factor, set_buyback_factor. replace (unit <? f) with true by lia. auto. Qed.

  Lemma cfg_inv_step c o : cfg_inv c -> cfg_inv (apply_cop unit c o).
  Proof.
    intros [A B]. destruct o as [f|f]; simpl.
    - destruct (set_gt_factor unit c f) as [[c' p]|e] eqn:E; [|split; assumption].
      apply set_gt_factor_ok in E. unfold cfg_inv. lia.
    - destruct (set_buyback_factor unit c f) as [[c' p]|e] eqn:E; [|split; assumption].
      apply set_buyback_factor_ok in E. unfold cfg_inv. lia.
  Qed.

  Theorem factors_le_unit ops : 0 <= unit -> cfg_inv (fold_left (apply_cop unit) ops (MkC 0 0)).
  Proof.
    intros Hu. assert (H0 : cfg_inv (MkC 0 0)) by (unfold cfg_inv; simpl; lia).
    revert H0. generalize (MkC 0 0). induction ops as [|o r IH]; intros c Hc; simpl; [exact Hc|].
    apply IH. apply cfg_inv_step. exact Hc.
  Qed.
End Cfg.

(* ================= per-token claim arithmetic ================= *)
Definition sumZ (l : list Z) : Z := fold_right Z.add 0 l.

(* invariant of the claim sequence: the balance per remaining GT never decreases *)
Definition cinv (B0 G0 B G : Z) : Prop := 0 <= B /\ 0 <= G <= G0 /\ B0 * G <= B * G0.

Lemma claim1_spec B G g : 0 <= B -> 0 <= g <= G ->
  let '(p, B', G') := claim1 B G g in
  0 <= p <= B /\ B' = B - p /\ G' = G - g /\ B * G' <= B' * G /\
  (g <> 0 -> p = B * g / G /\ (g = G -> B' = 0)).
Proof.
  intros HB Hg. unfold claim1. destruct (g =? 0) eqn:E.
  - repeat split; try lia; nia.
  - assert (0 < G) by lia.
    pose proof (div_floor_spec (B * g) G ltac:(lia)) as HF.
    assert (0 <= B * g / G) by (apply div_nonneg; nia).
    assert (B * g / G <= B) by (apply Z.div_le_upper_bound; [lia|nia]).
    repeat split; try lia; try nia.
Qed.

Lemma floor_share_mono B0 G0 B G g : 0 < G -> 0 < G0 -> 0 <= g -> 0 <= B0 -> B0 * G <= B * G0 ->
  B0 * g / G0 <= B * g / G.
Proof.
  intros HG HG0 Hg HB0 Hinv. apply Z.div_le_lower_bound; [lia|].
  pose proof (div_floor_spec (B0 * g) G0 ltac:(lia)) as HF. set (q := B0 * g / G0) in *.
  (* q*G0 <= B0*g, hence q*G0*G <= B0*g*G <= B*g*G0 *)
  assert (q * G0 * G <= B * g * G0) by nia.
  assert (G0 * (G * q) <= G0 * (B * g)) by lia.
  apply Z.mul_le_mono_pos_l in H0; lia.
Qed.

Lemma run_zero_claims B G gs : Forall (fun g => g = 0) gs ->
  run_claims B G gs = (map (fun _ => 0) gs, B, G).
Proof.
  induction gs as [|g r IH]; intros H; [reflexivity|]. inversion H; subst. simpl.
  rewrite IH by assumption. reflexivity.
Qed.

Lemma sum_nonneg_zero gs : Forall (fun g => 0 <= g) gs -> sumZ gs = 0 -> Forall (fun g => g = 0) gs.
Proof.
  induction gs as [|g r IH]; intros H S; [constructor|]. inversion H; subst. simpl in S.
  assert (0 <= sumZ r) by (clear -H3; induction r; simpl; [lia|inversion H3; subst; specialize (IHr H2); lia]).
  constructor; [lia|apply IH; [assumption|lia]].
Qed.

Lemma sum_nonneg gs : Forall (fun g => 0 <= g) gs -> 0 <= sumZ gs.
Proof. induction gs; simpl; intros H; [lia|inversion H; subst; specialize (IHgs H3); lia]. Qed.

(* the whole sequence, from any state satisfying the invariant *)
Theorem run_claims_spec B0 G0 : 0 <= B0 -> forall gs B G,
  cinv B0 G0 B G -> Forall (fun g => 0 <= g) gs -> sumZ gs <= G ->
  let '(ps, Bf, Gf) := run_claims B G gs in
  length ps = length gs /\
  Forall2 (fun g p => 0 <= p /\ (g <> 0 -> B0 * g / G0 <= p)) gs ps /\
  sumZ ps + Bf = B /\ Gf = G - sumZ gs /\ cinv B0 G0 Bf Gf /\
  (Gf = 0 -> 0 < sumZ gs -> Bf = 0).
Proof.
  intros HB0. induction gs as [|g r IH]; intros B G Hinv Hnn Hsum.
  - simpl. split; [reflexivity|]. split; [constructor|]. split; [lia|]. split; [lia|]. split; [exact Hinv|lia].
  - inversion Hnn as [|? ? Hg Hr]; subst. simpl in Hsum. pose proof (sum_nonneg r Hr) as Hsr.
    destruct Hinv as (HB & HG & HI).
    pose proof (claim1_spec B G g HB ltac:(lia)) as H1. simpl.
    destruct (claim1 B G g) as [[p B'] G'] eqn:E1.
    destruct H1 as (Hp & -> & -> & Hratio & Hnz).
    assert (Hinv' : cinv B0 G0 (B - p) (G - g)).
    { unfold cinv. split; [lia|]. split; [lia|].
      destruct (Z.eq_dec G 0) as [->|HGnz]; [assert (g = 0) by lia; subst; unfold claim1 in E1; simpl in E1; injection E1 as <- _; nia|].
      (* B0*G <= B*G0 and B*(G-g) <= (B-p)*G *)
      assert (B0 * (G - g) * G <= (B - p) * G0 * G) by nia.
      assert (G * (B0 * (G - g)) <= G * ((B - p) * G0)) by lia.
      apply Z.mul_le_mono_pos_l in H0; lia. }
    specialize (IH (B - p) (G - g) Hinv' Hr ltac:(lia)).
    destruct (run_claims (B - p) (G - g) r) as [[ps Bf] Gf] eqn:E2.
    destruct IH as (IL & IF & IS & IG & II & ID). simpl.
    split; [lia|]. split.
    { constructor; [|exact IF]. split; [lia|]. intros Hgnz. destruct (Hnz Hgnz) as [-> _].
      apply floor_share_mono; try lia. }
    split; [lia|]. split; [lia|]. split; [exact II|].
    intros HGf Hpos. destruct (Z.eq_dec (sumZ r) 0) as [Hz|Hz].
    + (* the rest are zero claims: this claim is the last effective one and takes everything *)
      pose proof (sum_nonneg_zero r Hr Hz) as Hall. rewrite run_zero_claims in E2 by assumption.
      injection E2 as _ <- <-. assert (g = G) by lia. assert (g <> 0) by lia.
      destruct (Hnz H0) as [_ Hd]. specialize (Hd H). lia.
    + apply ID; lia.
Qed.

Theorem claim_sequence B0 G0 gs : 0 <= B0 -> 0 <= G0 ->
  Forall (fun g => 0 <= g) gs -> sumZ gs <= G0 ->
  let '(ps, Bf, Gf) := run_claims B0 G0 gs in
  length ps = length gs /\
  Forall2 (fun g p => 0 <= p /\ (g <> 0 -> B0 * g / G0 <= p)) gs ps /\
  sumZ ps + Bf = B0 /\ 0 <= Bf /\ Gf = G0 - sumZ gs /\
  (Gf = 0 -> 0 < sumZ gs -> Bf = 0).
Proof.
  intros HB HG Hnn Hs.
  pose proof (run_claims_spec B0 G0 HB gs B0 G0 ltac:(unfold cinv; lia) Hnn Hs) as H.
  destruct (run_claims B0 G0 gs) as [[ps Bf] Gf]. destruct H as (A & B & C & D & (E & _) & F). tauto.
Qed.

Lemma per_token_chain R g r (L L' : list (Z * Z)) :
  Forall2 (fun kv kv' => fst kv' = fst kv /\ snd kv' = snd (fst (run_claims (snd kv) (R - g) r)))
          (map (fun kv => (fst kv, snd (fst (claim1 (snd kv) R g)))) L) L' ->
  Forall2 (fun kv kv' => fst kv' = fst kv /\ snd kv' = snd (fst (run_claims (snd kv) R (g :: r)))) L L'.
Proof.
  revert L'. induction L as [|[k b] l IHl]; intros L' EF.
  - inversion EF. constructor.
  - cbn [map] in EF. inversion EF as [|x y l1 l2 [Hk Hv] EF' E1 E2]. constructor.
    + cbn [fst snd] in *. split; [exact Hk|]. rewrite Hv. cbn [run_claims]. unfold claim1.
      destruct (g =? 0) eqn:E; cbn [fst snd].
      * replace (R - g) with R by lia. destruct (run_claims b R r) as [[ps Bf] Gf]. reflexivity.
      * destruct (run_claims (b - b * g / R) (R - g) r) as [[ps Bf] Gf]. reflexivity.
    + apply IHl. exact EF'.
Qed.

(* ================= the bank-level loop refines the per-token arithmetic ================= *)
Section Bk.
  Variable wa : Z.
  Hypothesis Hwa : 1 <= wa.

  Definition wf_bank (st : bank) : Prop :=
    0 <= b_rem st < 2 ^ wa /\ Forall (fun kv => 0 <= snd kv < 2 ^ wa) (b_bal st).

  Lemma claim_list_spec g total l : 0 < g <= total -> Forall (fun kv => 0 <= snd kv < 2 ^ wa) l ->
    claim_list wa g total l =
      Ok (map (fun kv => (fst kv, snd kv - snd kv * g / total)) l,
          map (fun kv => (fst kv, snd kv, snd kv * g / total)) (filter (fun kv => negb (snd kv =? 0)) l)).
  Proof.
    intros Hg. induction l as [|[k b] r IH]; intros Hwf; [reflexivity|].
    inversion Hwf as [|? ? Hb Hr]; subst. simpl in Hb. specialize (IH Hr). cbn [claim_list].
    destruct (b =? 0) eqn:E.
    - rewrite IH. cbn [rbind fst snd map filter]. rewrite E. cbn [negb].
      replace b with 0 by lia. rewrite Z.mul_0_l, Z.div_0_l by lia. reflexivity.
    - assert (0 <= b * g / total) by (apply div_nonneg; nia).
      assert (b * g / total <= b) by (apply Z.div_le_upper_bound; [lia|nia]).
      assert (E1 : mul_div wa b g total = Some (b * g / total)) by (apply mul_div_exact; [lia..|]; repeat split; lia).
      rewrite E1. cbn [of_opt rbind].
      assert (E2 : (if b * g / total =? 0 then Ok b else of_opt 4 (usub wa b (b * g / total))) = Ok (b - b * g / total)).
      { destruct (b * g / total =? 0) eqn:E3; [f_equal; lia|].
        assert (E4 : usub wa b (b * g / total) = Some (b - b * g / total)) by (apply chk_u_some; lia).
        rewrite E4. reflexivity. }
      rewrite E2. cbn [rbind]. rewrite IH. cbn [rbind fst snd map filter]. rewrite E. cbn [negb map fst snd]. reflexivity.
  Qed.

  (* one claim: refused iff it exceeds the remaining confirmed GT; otherwise every balance moves
     by exactly claim1 *)
  Theorem claim_spec st g : wf_bank st -> 0 <= g ->
    (b_rem st < g -> claim wa st g = Err 6) /\
    (g <= b_rem st ->
       claim wa st g =
         Ok (MkB (b_conf st) (b_rem st - g)
                 (map (fun kv => (fst kv, snd (fst (claim1 (snd kv) (b_rem st) g)))) (b_bal st)),
             if g =? 0 then []
             else map (fun kv => (fst kv, snd kv, fst (fst (claim1 (snd kv) (b_rem st) g))))
                      (filter (fun kv => negb (snd kv =? 0)) (b_bal st)))).
  Proof.
    intros (Hrem & Hbal) Hg. unfold claim, claim1. split.
    - intros Hlt. replace (g =? 0) with false by lia. replace (b_rem st <? g) with true by lia. reflexivity.
    - intros Hle. destruct (g =? 0) eqn:E.
      + f_equal. f_equal. destruct st as [c r l]. simpl. f_equal; [lia|].
        clear. induction l as [|[k b] l IH]; [reflexivity|]. simpl. f_equal. exact IH.
      + replace (b_rem st <? g) with false by lia.
        rewrite claim_list_spec by (assumption || lia). cbn [rbind fst snd].
        unfold record_claimed, with_bal. cbn [b_rem b_conf b_bal].
        assert (E1 : usub wa (b_rem st) g = Some (b_rem st - g)) by (apply chk_u_some; lia).
        rewrite E1. reflexivity.
  Qed.

  Lemma wf_after_claim st g : wf_bank st -> 0 <= g <= b_rem st ->
    wf_bank (MkB (b_conf st) (b_rem st - g)
                 (map (fun kv => (fst kv, snd (fst (claim1 (snd kv) (b_rem st) g)))) (b_bal st))).
  Proof.
    intros (Hrem & Hbal) Hg. unfold wf_bank. simpl. split; [lia|].
    apply Forall_forall. intros kv Hin. apply in_map_iff in Hin. destruct Hin as ([k b] & <- & Hin).
    rewrite Forall_forall in Hbal. specialize (Hbal _ Hin). simpl in *.
    pose proof (claim1_spec b (b_rem st) g ltac:(lia) ltac:(lia)) as H1.
    destruct (claim1 b (b_rem st) g) as [[p B'] G']. simpl. lia.
  Qed.

  (* a whole sequence of claims: succeeds iff the claims fit the remaining GT, and then every
     token's balance and payouts are those of [run_claims] *)
  Theorem bank_claims_refine gs : forall st, wf_bank st -> Forall (fun g => 0 <= g) gs -> sumZ gs <= b_rem st ->
    exists st' rows, bank_claims wa st gs = Ok (st', rows) /\
      b_rem st' = b_rem st - sumZ gs /\ b_conf st' = b_conf st /\ length rows = length gs /\
      Forall2 (fun kv kv' => fst kv' = fst kv /\
                 snd kv' = snd (fst (run_claims (snd kv) (b_rem st) gs))) (b_bal st) (b_bal st').
  Proof.
    induction gs as [|g r IH]; intros st Hwf Hnn Hsum.
    - exists st, []. simpl. repeat split; try lia.
      clear. induction (b_bal st) as [|kv l IHl]; constructor; auto.
    - inversion Hnn as [|? ? Hg Hr]; subst. simpl in Hsum. pose proof (sum_nonneg r Hr) as Hsr.
      destruct (claim_spec st g Hwf Hg) as [_ Hok]. specialize (Hok ltac:(lia)).
      pose proof (wf_after_claim st g Hwf ltac:(lia)) as Hwf'.
      set (st1 := MkB (b_conf st) (b_rem st - g)
                      (map (fun kv => (fst kv, snd (fst (claim1 (snd kv) (b_rem st) g)))) (b_bal st))) in *.
      destruct (IH st1 Hwf' Hr ltac:(simpl; lia)) as (st' & rows & E & Erem & Econf & Elen & EF).
      cbn [bank_claims]. rewrite Hok. cbn [rbind fst snd]. fold st1. rewrite E. cbn [rbind fst snd].
      eexists _, _. split; [reflexivity|]. simpl in Erem, Econf. cbn [fst snd].
      split; [simpl; lia|]. split; [exact Econf|]. split; [simpl; lia|].
      (* per token *)
      subst st1. cbn [b_bal b_rem] in EF. exact (per_token_chain (b_rem st) g r (b_bal st) (b_bal st') EF).
  Qed.

  (* when the claims add up to the confirmed total, every claim succeeds and the bank is drained *)
  Theorem all_claims_drain st gs : wf_bank st -> Forall (fun g => 0 <= g) gs ->
    sumZ gs = b_rem st -> 0 < b_rem st ->
    exists st' rows, bank_claims wa st gs = Ok (st', rows) /\ b_rem st' = 0 /\
      Forall (fun kv => snd kv = 0) (b_bal st') /\ map fst (b_bal st') = map fst (b_bal st).
  Proof.
    intros Hwf Hnn Hsum Hpos.
    destruct (bank_claims_refine gs st Hwf Hnn ltac:(lia)) as (st' & rows & E & Erem & _ & _ & EF).
    exists st', rows. split; [exact E|]. split; [lia|].
    destruct Hwf as (Hrem & Hbal). revert EF Hbal. generalize (b_bal st'). induction (b_bal st) as [|[k b] l IH]; intros l' EF Hbal.
    - inversion EF; subst. split; constructor.
    - inversion EF as [|? y ? l2 [Hk Hv] EF']; subst. inversion Hbal as [|? ? Hb Hl]; subst. simpl in Hb.
      destruct (IH l2 EF' Hl) as [I1 I2]. split.
      + constructor; [|exact I1]. rewrite Hv. cbn [snd].
        pose proof (run_claims_spec b (b_rem st) ltac:(lia) gs b (b_rem st)) as HS.
        assert (Hc : cinv b (b_rem st) b (b_rem st)) by (unfold cinv; lia).
        specialize (HS Hc Hnn ltac:(lia)). destruct (run_claims b (b_rem st) gs) as [[ps Bf] Gf].
        destruct HS as (_ & _ & _ & HG & _ & HD). cbn [fst snd]. apply HD; lia.
      + simpl. f_equal; [exact Hk|exact I2].
  Qed.
End Bk.
