(* C25 — correspondence and oracle predicates for harness/src/bin/c25.rs. *)
From GV Require Import lib.Base.
From GV Require Export C25.Model.
Open Scope Z_scope.

(* one history on one zero-initialised PriceFeed account: each entry is the operation, the result of
   the real PriceFeed::update (Ok updated? / Err code; Err 9 = panic) and the account state afterwards *)
Inductive case :=
| Hist (h : list (op * res bool * feed)).

Definition feed_eqb (a b : feed) : bool :=
  (last_slot a =? last_slot b) && (last_published_at a =? last_published_at b) && (fp_ts a =? fp_ts b)
  && (fp_price a =? fp_price b) && (fp_min a =? fp_min b) && (fp_max a =? fp_max b) && (fp_dec a =? fp_dec b).
Definition rbool_eqb (a b : res bool) : bool :=
  match a, b with Ok x, Ok y => Bool.eqb x y | Err x, Err y => x =? y | _, _ => false end.

Fixpoint corr_from (f : feed) (h : list (op * res bool * feed)) : bool :=
  match h with
  | [] => true
  | (o, r, f') :: rest =>
      let '(r', f'') := update f o in
      rbool_eqb r' r && feed_eqb f'' f' && corr_from f' rest
  end.
Definition corr_b (c : case) : bool := match c with Hist h => corr_from feed0 h end.

(* the property on the observed states only *)
Fixpoint oracle_from (f : feed) (h : list (op * res bool * feed)) : bool :=
  match h with
  | [] => true
  | (o, r, f') :: rest =>
      (* never backwards in time; stored price ordered *)
      (fp_ts f <=? fp_ts f') && (fp_min f' <=? fp_price f') && (fp_price f' <=? fp_max f')
      && (last_slot f <=? last_slot f') && (last_published_at f <=? last_published_at f')
      (* idempotent mode: an older update (with a sane clock) is skipped WITHOUT error *)
      && (if o_idem o && (o_ts o <? fp_ts f) && (last_slot f <=? o_slot o) && (last_published_at f <=? o_now o)
          then rbool_eqb r (Ok false) else true)
      && match r with
         | Ok true =>
             (* the new price was stored as a whole, stamped with the clock, and is not from the future *)
             feed_eqb f' (mkFeed (o_slot o) (o_now o) (o_ts o) (o_price o) (o_min o) (o_max o) (o_dec o))
             && (o_ts o <=? o_now o + o_mfe o) && (fp_ts f <=? o_ts o)
         | Ok false =>
             (* skipped: only in idempotent mode, only an older update, nothing changes *)
             o_idem o && (o_ts o <? fp_ts f) && feed_eqb f' f
         | Err e =>
             (* rejected: nothing changes; and there is a reason *)
             feed_eqb f' f && negb (e =? 9) &&
             ((o_slot o <? last_slot f) || (o_now o <? last_published_at f)
              || ((o_ts o <? fp_ts f) && negb (o_idem o))
              || (o_now o + o_mfe o <? o_ts o)
              || (o_max o <? o_min o) || (o_max o <? o_price o) || (o_price o <? o_min o))
         end
      && oracle_from f' rest
  end.
Definition oracle_b (c : case) : bool := match c with Hist h => oracle_from feed0 h end.
Definition known_b (c : case) : Z := 0.
