(* C25 — property theorems only.  Histories are arbitrary lists of update instructions (any clock values,
   even going backwards; any prices; both modes) applied with fold_left to a zero-initialised feed. *)
From GV Require Import lib.Base C25.Model C25.Proofs.
Open Scope Z_scope.

Theorem c25_feed_ts_monotone : forall ops1 ops2,
  fp_ts (run ops1) <= fp_ts (run (ops1 ++ ops2)) /\
  last_slot (run ops1) <= last_slot (run (ops1 ++ ops2)) /\
  last_published_at (run ops1) <= last_published_at (run (ops1 ++ ops2)).
Proof. exact feed_ts_monotone. Qed.

Theorem c25_feed_price_ordered : forall ops,
  (fp_min (run ops) <= fp_price (run ops) <= fp_max (run ops)) /\ 0 <= fp_ts (run ops).
Proof. exact feed_price_ordered. Qed.

Theorem c25_rejected_update_changes_nothing : forall f o e f', update f o = (Err e, f') -> f' = f.
Proof. exact rejected_unchanged. Qed.

Theorem c25_idempotent_skips_older : forall f o,
  o_idem o = true -> o_ts o < fp_ts f -> last_slot f <= o_slot o -> last_published_at f <= o_now o ->
  update f o = (Ok false, f).
Proof. exact idempotent_skip. Qed.

Theorem c25_skip_only_older_idempotent : forall f o f', update f o = (Ok false, f') ->
  f' = f /\ o_idem o = true /\ o_ts o < fp_ts f.
Proof. exact skip_only_older_idempotent. Qed.

Theorem c25_strict_rejects_older : forall f o,
  o_idem o = false -> o_ts o < fp_ts f -> exists e, update f o = (Err e, f).
Proof. exact strict_rejects_older. Qed.

Theorem c25_accepted_update : forall f o f', update f o = (Ok true, f') ->
  f' = mkFeed (o_slot o) (o_now o) (o_ts o) (o_price o) (o_min o) (o_max o) (o_dec o) /\
  fp_ts f <= o_ts o <= sat_add_u64 (o_now o) (o_mfe o) /\ o_min o <= o_price o <= o_max o /\
  last_slot f <= o_slot o /\ last_published_at f <= o_now o.
Proof. exact accepted_update. Qed.

(* complete case analysis (every update is exactly one of: rejected with a reason and no change,
   skipped, or stored) *)
Theorem c25_update_cases : forall f o,
  (exists e, update f o = (Err e, f) /\
     ((e = 17 /\ (o_slot o < last_slot f \/ o_now o < last_published_at f)) \/
      (e = 1 /\ last_slot f <= o_slot o /\ last_published_at f <= o_now o /\
         ((o_idem o = false /\ o_ts o < fp_ts f) \/
          (fp_ts f <= o_ts o /\ (sat_add_u64 (o_now o) (o_mfe o) < o_ts o \/ o_max o < o_min o \/ o_max o < o_price o \/ o_price o < o_min o)))))) \/
  (update f o = (Ok false, f) /\ o_idem o = true /\ o_ts o < fp_ts f /\
     last_slot f <= o_slot o /\ last_published_at f <= o_now o) \/
  (update f o = (Ok true, mkFeed (o_slot o) (o_now o) (o_ts o) (o_price o) (o_min o) (o_max o) (o_dec o)) /\
     last_slot f <= o_slot o /\ last_published_at f <= o_now o /\ fp_ts f <= o_ts o /\
     o_ts o <= sat_add_u64 (o_now o) (o_mfe o) /\ o_min o <= o_price o <= o_max o).
Proof. exact update_cases. Qed.

Example c25_ex1 :
  run [mkOp 5 100 99 10 9 11 8 3 false; mkOp 6 101 98 10 9 11 8 3 true; mkOp 6 101 98 10 9 11 8 3 false;
       mkOp 7 102 106 20 19 21 8 3 false; mkOp 7 102 105 20 21 19 8 3 false; mkOp 7 102 105 20 19 21 6 3 true]
  = mkFeed 7 102 105 20 19 21 6.
Proof. vm_compute. reflexivity. Qed.
