(* C25 — proofs about PriceFeed::update and its histories. *)
From GV Require Import lib.Base C25.Model.
Open Scope Z_scope.

Definition ordered (f : feed) : Prop := fp_min f <= fp_price f <= fp_max f.

(* complete case analysis of one update *)
Lemma update_cases f o :
  (exists e, update f o = (Err e, f) /\
     ((e = 17 /\ (o_slot o < last_slot f \/ o_now o < last_published_at f)) \/
      (e = 1 /\ last_slot f <= o_slot o /\ last_published_at f <= o_now o /\
         ((o_idem o = false /\ o_ts o < fp_ts f) \/
          (fp_ts f <= o_ts o /\ (sat_add_u64 (o_now o) (o_mfe o) < o_ts o \/ o_max o < o_min o \/ o_max o < o_price o \/ o_price o < o_min o)))))) \/
  (update f o = (Ok false, f) /\ o_idem o = true /\ o_ts o < fp_ts f /\
     last_slot f <= o_slot o /\ last_published_at f <= o_now o) \/
  (update f o = (Ok true, mkFeed (o_slot o) (o_now o) (o_ts o) (o_price o) (o_min o) (o_max o) (o_dec o)) /\
     last_slot f <= o_slot o /\ last_published_at f <= o_now o /\ fp_ts f <= o_ts o /\
     o_ts o <= sat_add_u64 (o_now o) (o_mfe o) /\ o_min o <= o_price o <= o_max o).
Proof.
  unfold update.
  destruct (o_slot o <? last_slot f) eqn:E1; [left; exists 17; split; [reflexivity|left; split; [reflexivity|lia]]|].
  destruct (o_now o <? last_published_at f) eqn:E2; [left; exists 17; split; [reflexivity|left; split; [reflexivity|lia]]|].
  destruct (o_idem o) eqn:EI; cbn [andb].
  - destruct (o_ts o <? fp_ts f) eqn:E3; [right; left; repeat split; lia|].
    destruct (sat_add_u64 (o_now o) (o_mfe o) <? o_ts o) eqn:E4; [left; exists 1; split; [reflexivity|]; right; split; [reflexivity|]; split; [lia|]; split; [lia|]; right; lia|].
    destruct (o_max o <? o_min o) eqn:E5; [left; exists 1; split; [reflexivity|]; right; split; [reflexivity|]; split; [lia|]; split; [lia|]; right; lia|].
    destruct (o_max o <? o_price o) eqn:E6; [left; exists 1; split; [reflexivity|]; right; split; [reflexivity|]; split; [lia|]; split; [lia|]; right; lia|].
    destruct (o_price o <? o_min o) eqn:E7; [left; exists 1; split; [reflexivity|]; right; split; [reflexivity|]; split; [lia|]; split; [lia|]; right; lia|].
    right; right. repeat split; lia.
  - destruct (o_ts o <? fp_ts f) eqn:E3; [left; exists 1; split; [reflexivity|]; right; split; [reflexivity|]; split; [lia|]; split; [lia|]; left; split; [reflexivity|lia]|].
    destruct (sat_add_u64 (o_now o) (o_mfe o) <? o_ts o) eqn:E4; [left; exists 1; split; [reflexivity|]; right; split; [reflexivity|]; split; [lia|]; split; [lia|]; right; lia|].
    destruct (o_max o <? o_min o) eqn:E5; [left; exists 1; split; [reflexivity|]; right; split; [reflexivity|]; split; [lia|]; split; [lia|]; right; lia|].
    destruct (o_max o <? o_price o) eqn:E6; [left; exists 1; split; [reflexivity|]; right; split; [reflexivity|]; split; [lia|]; split; [lia|]; right; lia|].
    destruct (o_price o <? o_min o) eqn:E7; [left; exists 1; split; [reflexivity|]; right; split; [reflexivity|]; split; [lia|]; split; [lia|]; right; lia|].
    right; right. repeat split; lia.
Qed.

(* a rejected update changes nothing *)
Theorem rejected_unchanged f o e f' : update f o = (Err e, f') -> f' = f.
Proof.
  intros H. destruct (update_cases f o) as [(e' & U & _)|[(U & _)|(U & _)]]; rewrite U in H; try discriminate.
  injection H as _ <-. reflexivity.
Qed.

(* idempotent mode: an older update with a sane clock is skipped without error and without effect *)
Theorem idempotent_skip f o :
  o_idem o = true -> o_ts o < fp_ts f -> last_slot f <= o_slot o -> last_published_at f <= o_now o ->
  update f o = (Ok false, f).
Proof.
  intros H1 H2 H3 H4. unfold update.
  replace (o_slot o <? last_slot f) with false by lia. replace (o_now o <? last_published_at f) with false by lia.
  rewrite H1. replace (o_ts o <? fp_ts f) with true by lia. reflexivity.
Qed.

(* ... and Ok false happens in no other situation *)
Theorem skip_only_older_idempotent f o f' : update f o = (Ok false, f') ->
  f' = f /\ o_idem o = true /\ o_ts o < fp_ts f.
Proof.
  intros H. destruct (update_cases f o) as [(e' & U & _)|[(U & A & B & _)|(U & _)]]; rewrite U in H; try discriminate.
  injection H as <-. auto.
Qed.

(* strict mode: an older update is an error *)
Theorem strict_rejects_older f o :
  o_idem o = false -> o_ts o < fp_ts f -> exists e, update f o = (Err e, f).
Proof.
  intros H1 H2. destruct (update_cases f o) as [(e' & U & _)|[(U & A & _)|(U & _ & _ & B & _)]].
  - exists e'. exact U. - congruence. - lia.
Qed.

(* an accepted update stores the whole price, stamps the clock, is not from the future *)
Theorem accepted_update f o f' : update f o = (Ok true, f') ->
  f' = mkFeed (o_slot o) (o_now o) (o_ts o) (o_price o) (o_min o) (o_max o) (o_dec o) /\
  fp_ts f <= o_ts o <= sat_add_u64 (o_now o) (o_mfe o) /\ o_min o <= o_price o <= o_max o /\
  last_slot f <= o_slot o /\ last_published_at f <= o_now o.
Proof.
  intros H. destruct (update_cases f o) as [(e' & U & _)|[(U & _)|(U & A)]]; rewrite U in H; try discriminate.
  injection H as <-. repeat split; lia.
Qed.

(* one step: monotone in every time field, keeps the ordering *)
Lemma step_mono f o :
  fp_ts f <= fp_ts (step f o) /\ last_slot f <= last_slot (step f o) /\
  last_published_at f <= last_published_at (step f o) /\ (ordered f -> ordered (step f o)).
Proof.
  unfold step, ordered. destruct (update_cases f o) as [(e' & U & _)|[(U & _)|(U & A)]]; rewrite U; cbn [snd];
    try (repeat split; lia). cbn [fp_ts last_slot last_published_at fp_min fp_price fp_max]. repeat split; lia.
Qed.

(* ---- histories ---- *)
Lemma fold_step_mono ops : forall f,
  fp_ts f <= fp_ts (fold_left step ops f) /\ last_slot f <= last_slot (fold_left step ops f) /\
  last_published_at f <= last_published_at (fold_left step ops f) /\
  (ordered f -> ordered (fold_left step ops f)).
Proof.
  induction ops as [|o r IH]; intros f; cbn [fold_left].
  - split; [lia|]. split; [lia|]. split; [lia|]. auto.
  - pose proof (step_mono f o) as (A1 & A2 & A3 & A4). pose proof (IH (step f o)) as (B1 & B2 & B3 & B4).
    split; [lia|]. split; [lia|]. split; [lia|]. auto.
Qed.

(* after any sequence of updates: the price timestamp never decreased at any point of the history *)
Theorem feed_ts_monotone ops1 ops2 :
  fp_ts (run ops1) <= fp_ts (run (ops1 ++ ops2)) /\
  last_slot (run ops1) <= last_slot (run (ops1 ++ ops2)) /\
  last_published_at (run ops1) <= last_published_at (run (ops1 ++ ops2)).
Proof.
  unfold run. rewrite fold_left_app. pose proof (fold_step_mono ops2 (fold_left step ops1 feed0)). tauto.
Qed.

(* ... and the stored price is ordered, and its timestamp is never negative *)
Theorem feed_price_ordered ops : ordered (run ops) /\ 0 <= fp_ts (run ops).
Proof.
  unfold run. pose proof (fold_step_mono ops feed0) as (A & _ & _ & B). split; [apply B; unfold ordered; cbn; lia|exact A].
Qed.
