(* C25 — model of PriceFeed::update (programs/store/src/states/oracle/feed.rs).  Definitions only.
   Errors: 17 = PreconditionsAreNotMet (clock went backwards), 1 = InvalidArgument. *)
From GV Require Import lib.Base.
Open Scope Z_scope.

(* the part of the PriceFeed account that update reads / writes; fp_dec stands for the rest of the
   PriceFeedPrice payload, which is copied as a whole *)
Record feed := mkFeed {
  last_slot : Z; last_published_at : Z;
  fp_ts : Z; fp_price : Z; fp_min : Z; fp_max : Z; fp_dec : Z }.

(* a zero-initialised account (PriceFeed::default / init leave these fields 0) *)
Definition feed0 : feed := mkFeed 0 0 0 0 0 0 0.

(* one update instruction: clock (slot, now), the new price, max_future_excess, idempotent *)
Record op := mkOp {
  o_slot : Z; o_now : Z;
  o_ts : Z; o_price : Z; o_min : Z; o_max : Z; o_dec : Z;
  o_mfe : Z; o_idem : bool }.

Definition sat_add_u64 (a b : Z) : Z := Z.min (2 ^ 63 - 1) (a + b).

(* returns Ok updated? and the new state; on Err the state is the old one *)
Definition update (f : feed) (o : op) : res bool * feed :=
  if o_slot o <? last_slot f then (Err 17, f)
  else if o_now o <? last_published_at f then (Err 17, f)
  else if o_idem o && (o_ts o <? fp_ts f) then (Ok false, f)
  else if o_ts o <? fp_ts f then (Err 1, f)
  else if sat_add_u64 (o_now o) (o_mfe o) <? o_ts o then (Err 1, f)
  else if o_max o <? o_min o then (Err 1, f)
  else if o_max o <? o_price o then (Err 1, f)
  else if o_price o <? o_min o then (Err 1, f)
  else (Ok true, mkFeed (o_slot o) (o_now o) (o_ts o) (o_price o) (o_min o) (o_max o) (o_dec o)).

Definition step (f : feed) (o : op) : feed := snd (update f o).
Definition run (ops : list op) : feed := fold_left step ops feed0.
