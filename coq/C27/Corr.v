(* C27 — correspondence and oracle predicates for harness/src/bin/c27.rs. *)
From GV Require Import lib.Base C27.Model.
Open Scope Z_scope.

Inductive case :=
(* PriceFeedPrice{market_status_value, flags, last_update_diff, ts}.is_market_open(now, timeout, policy) *)
| IsOpen (status_raw pflags lud ts now timeout policy : Z) (r : bool)
(* MarketStatus(status).openness(policy) : 0 Open / 1 Closed / 2 Skip ; status = value of market_status() for the raw byte *)
| Openness (status_raw policy : Z) (status r : Z)
(* last_update_diff_secs() *)
| LudSecs (pflags lud : Z) (r : option Z).

Definition corr_b (c : case) : bool :=
  match c with
  | IsOpen s pf lud ts now timeout pol r => Bool.eqb (is_market_open s pf lud ts now timeout pol) r
  | Openness s pol st r => (market_status s =? st) && (openness (market_status s) pol =? r)
  | LudSecs pf lud r => oeqb (last_update_diff_secs pf lud) r
  end.

(* The property on unbounded integers, written as a table, independent of the model. *)
Definition bit (v i : Z) : bool := Z.odd (v / 2 ^ i).

(* closed under the policy: each status with its own flag; unknown raw bytes count as Disabled *)
Definition status_closed (raw policy : Z) : bool :=
  match raw with
  | 1 => negb (bit policy 0)
  | 2 => negb (bit policy 1)
  | 3 => bit policy 2
  | 4 => negb (bit policy 3)
  | 5 => negb (bit policy 4)
  | 6 => negb (bit policy 5)
  | _ => false
  end.

(* seconds between the underlying last update and the report, rounded up *)
Definition lud_seconds (pflags lud : Z) : Z :=
  if bit pflags 2 then lud else (lud + 999999999) / 1000000000.

Definition spec_open (raw pflags lud ts now timeout policy : Z) : bool :=
  negb (status_closed raw policy) && bit pflags 0 &&
  (negb (bit pflags 1) ||
   ((now - ts <=? timeout) && (now - (ts - lud_seconds pflags lud) <=? timeout))).

Definition oracle_b (c : case) : bool :=
  match c with
  | IsOpen s pf lud ts now timeout pol r => Bool.eqb (spec_open s pf lud ts now timeout pol) r
  | Openness s pol st r =>
      (st =? (if (1 <=? s) && (s <=? 6) then s else 0)) &&
      (if (1 <=? s) && (s <=? 6) then r =? (if status_closed s pol then 1 else 0) else r =? 2)
  | LudSecs pf lud r =>
      match r with
      | None => negb (bit pf 1)
      | Some x => bit pf 1 && (if bit pf 2 then x =? lud
                               else ((x - 1) * 1000000000 <? lud) && (lud <=? x * 1000000000))
      end
  end.

Definition known_b (c : case) : Z := 0.
