(* C27 — model of PriceFeedPrice::is_market_open (crates/utils/src/price/feed_price.rs)
   and MarketStatus::openness (price/market_status.rs), with the machine arithmetic
   (i64 saturating_sub, u32 div_ceil) explicit.  Definitions only. *)
From GV Require Import lib.Base.
Open Scope Z_scope.

(* flag containers: an 8-bit bitmap, flag i = bit i *)
Definition flag (v i : Z) : bool := Z.testbit v i.

(* MarketStatus::try_from(u8).unwrap_or(Disabled):
   0 Disabled, 1 Unknown, 2 PreMarket, 3 RegularHours, 4 PostMarket, 5 Overnight, 6 Closed *)
Definition market_status (raw : Z) : Z := if (0 <=? raw) && (raw <=? 6) then raw else 0.

(* MarketOpenness: 0 = Open, 1 = Closed, 2 = Skip.
   MarketStatusFlag: 0 AllowUnknown, 1 AllowPreMarket, 2 HaltRegularHours, 3 AllowPostMarket,
   4 AllowOvernight, 5 AllowClosed *)
Definition open_if (b : bool) : Z := if b then 0 else 1.
Definition openness (status policy : Z) : Z :=
  if status =? 0 then 2
  else if status =? 1 then open_if (flag policy 0)
  else if status =? 2 then open_if (flag policy 1)
  else if status =? 3 then open_if (negb (flag policy 2))
  else if status =? 4 then open_if (flag policy 3)
  else if status =? 5 then open_if (flag policy 4)
  else open_if (flag policy 5).

(* PriceFlag: 0 Open, 1 LastUpdateDiffEnabled, 2 LastUpdateDiffSecs *)
Definition NANOS : Z := 1000000000.
Definition u32_div_ceil (a d : Z) : Z := if 0 <? a mod d then a / d + 1 else a / d.
Definition last_update_diff_secs (pflags lud : Z) : option Z :=
  if negb (flag pflags 1) then None
  else if flag pflags 2 then Some lud else Some (u32_div_ceil lud NANOS).

(* i64::saturating_sub *)
Definition sat_sub64 (a b : Z) : Z := Z.max (- 2 ^ 63) (Z.min (2 ^ 63 - 1) (a - b)).

Definition is_market_open (status_raw pflags lud ts now timeout policy : Z) : bool :=
  if openness (market_status status_raw) policy =? 1 then false
  else if negb (flag pflags 0) then false
  else match last_update_diff_secs pflags lud with
       | None => true
       | Some secs =>
           let current_diff := sat_sub64 now ts in
           if timeout <? current_diff then false
           else secs <=? sat_sub64 timeout current_diff
       end.
