(* C27 — proofs: the saturating-arithmetic implementation equals the unbounded-Z specification. *)
From GV Require Import lib.Base lib.DivLemmas C27.Model.
Open Scope Z_scope.
Ltac Zify.zify_post_hook ::= Z.div_mod_to_equations.

Lemma two63 : 2 ^ 63 = 9223372036854775808. Proof. reflexivity. Qed.
Lemma two32 : 2 ^ 32 = 4294967296. Proof. reflexivity. Qed.

(* ---- the freshness core: both saturating subtractions are harmless ---- *)
Lemma fresh_core now ts timeout secs :
  - 2 ^ 63 <= now < 2 ^ 63 -> - 2 ^ 63 <= ts < 2 ^ 63 -> 0 <= timeout < 2 ^ 32 -> 0 <= secs < 2 ^ 32 ->
  (if timeout <? sat_sub64 now ts then false else secs <=? sat_sub64 timeout (sat_sub64 now ts))
  = (now - ts + secs <=? timeout).
Proof.
  intros Hn Ht Hto Hs. unfold sat_sub64. rewrite two63, two32 in *.
  destruct (timeout <? _) eqn:E1.
  - symmetry. apply Z.leb_gt. lia.
  - destruct (secs <=? _) eqn:E2; symmetry; [apply Z.leb_le|apply Z.leb_gt]; lia.
Qed.

(* the saturating cases really occur and are decided as the comments in the code claim *)
Lemma sat_overflow_closed now ts timeout secs :
  - 2 ^ 63 <= now < 2 ^ 63 -> - 2 ^ 63 <= ts < 2 ^ 63 -> 0 <= timeout < 2 ^ 32 -> 0 <= secs < 2 ^ 32 ->
  2 ^ 63 <= now - ts -> (now - ts + secs <=? timeout) = false.
Proof. intros. rewrite two63, two32 in *. apply Z.leb_gt. lia. Qed.
Lemma sat_underflow_open now ts timeout secs :
  - 2 ^ 63 <= now < 2 ^ 63 -> - 2 ^ 63 <= ts < 2 ^ 63 -> 0 <= timeout < 2 ^ 32 -> 0 <= secs < 2 ^ 32 ->
  now - ts < - 2 ^ 63 -> (now - ts + secs <=? timeout) = true.
Proof. intros. rewrite two63, two32 in *. apply Z.leb_le. lia. Qed.

(* ---- last_update_diff_secs ---- *)
Lemma div_ceil_spec a : 0 <= a ->
  let s := u32_div_ceil a NANOS in 0 <= s /\ (s - 1) * NANOS < a <= s * NANOS.
Proof. intros Ha. unfold u32_div_ceil, NANOS. cbv zeta. destruct (0 <? _) eqn:E; lia. Qed.

Lemma div_ceil_u32 a : 0 <= a < 2 ^ 32 -> 0 <= u32_div_ceil a NANOS <= 5.
Proof. intros Ha. rewrite two32 in Ha. unfold u32_div_ceil, NANOS. destruct (0 <? _) eqn:E; lia. Qed.

(* seconds by which the underlying last update precedes the report (rounded up in nanosecond mode) *)
Definition lud_secs_spec (pflags lud : Z) : Z :=
  if flag pflags 2 then lud else u32_div_ceil lud NANOS.

Lemma lud_secs_spec_range pflags lud : 0 <= lud < 2 ^ 32 -> 0 <= lud_secs_spec pflags lud < 2 ^ 32.
Proof. intros H. unfold lud_secs_spec. destruct (flag pflags 2); [lia|]. pose proof (div_ceil_u32 lud H). rewrite two32 in *. lia. Qed.

Lemma last_update_diff_secs_eq pflags lud :
  last_update_diff_secs pflags lud = if flag pflags 1 then Some (lud_secs_spec pflags lud) else None.
Proof. unfold last_update_diff_secs, lud_secs_spec. destruct (flag pflags 1), (flag pflags 2); reflexivity. Qed.

(* ---- status / policy table ---- *)
(* closed under the policy, as a proposition over the raw status byte *)
Definition closed_spec (raw policy : Z) : Prop :=
  (raw = 1 /\ flag policy 0 = false) \/ (raw = 2 /\ flag policy 1 = false) \/
  (raw = 3 /\ flag policy 2 = true) \/ (raw = 4 /\ flag policy 3 = false) \/
  (raw = 5 /\ flag policy 4 = false) \/ (raw = 6 /\ flag policy 5 = false).

Lemma openness_closed raw policy :
  openness (market_status raw) policy = 1 <-> closed_spec raw policy.
Proof.
  unfold closed_spec, openness, market_status, open_if.
  destruct ((0 <=? raw) && (raw <=? 6)) eqn:R.
  - apply andb_true_iff in R. destruct R as [R1 R2].
    assert (C : raw = 0 \/ raw = 1 \/ raw = 2 \/ raw = 3 \/ raw = 4 \/ raw = 5 \/ raw = 6) by lia.
    destruct C as [->|[->|[->|[->|[->|[->| ->]]]]]]; cbn [Z.eqb Pos.eqb];
      repeat match goal with |- context [flag policy ?i] => destruct (flag policy i) eqn:? end; cbn [negb];
      split; intros H; try discriminate; try reflexivity; try lia;
      try (repeat (destruct H as [[? ?]|H]; try discriminate; try lia); destruct H; try discriminate; lia); tauto.
  - cbn [Z.eqb]. split; [discriminate|]. apply andb_false_iff in R.
    intros H. repeat (destruct H as [[? ?]|H]; [lia|]). lia.
Qed.

Lemma openness_skip raw policy :
  openness (market_status raw) policy = 2 <-> ~ (1 <= raw <= 6).
Proof.
  unfold openness, market_status, open_if.
  destruct ((0 <=? raw) && (raw <=? 6)) eqn:R.
  - apply andb_true_iff in R. destruct R as [R1 R2].
    assert (C : raw = 0 \/ raw = 1 \/ raw = 2 \/ raw = 3 \/ raw = 4 \/ raw = 5 \/ raw = 6) by lia.
    destruct C as [->|[->|[->|[->|[->|[->| ->]]]]]]; cbn [Z.eqb Pos.eqb];
      repeat match goal with |- context [flag policy ?i] => destruct (flag policy i) end; cbn [negb];
      split; intros H; try discriminate; try reflexivity; lia.
  - cbn [Z.eqb]. apply andb_false_iff in R. split; [lia|reflexivity].
Qed.

Lemma openness_range raw policy : 0 <= openness (market_status raw) policy <= 2.
Proof.
  unfold openness, open_if.
  repeat match goal with |- context [if ?c then _ else _] => destruct c end; lia.
Qed.

(* ---- main theorem ---- *)
Definition closed_b (raw policy : Z) : bool := openness (market_status raw) policy =? 1.

(* specification on unbounded integers: no saturation anywhere *)
Definition open_spec (raw pflags lud ts now timeout policy : Z) : bool :=
  negb (closed_b raw policy) && flag pflags 0 &&
  (negb (flag pflags 1) || (now - (ts - lud_secs_spec pflags lud) <=? timeout)).

Theorem is_market_open_eq raw pflags lud ts now timeout policy :
  - 2 ^ 63 <= now < 2 ^ 63 -> - 2 ^ 63 <= ts < 2 ^ 63 -> 0 <= timeout < 2 ^ 32 -> 0 <= lud < 2 ^ 32 ->
  is_market_open raw pflags lud ts now timeout policy = open_spec raw pflags lud ts now timeout policy.
Proof.
  intros Hn Ht Hto Hl. unfold is_market_open, open_spec, closed_b.
  destruct (openness (market_status raw) policy =? 1); [reflexivity|]. cbn [negb andb].
  destruct (flag pflags 0); [|reflexivity]. cbn [negb andb].
  rewrite last_update_diff_secs_eq. destruct (flag pflags 1); [|reflexivity]. cbn [negb orb].
  pose proof (lud_secs_spec_range pflags lud Hl).
  cbv zeta. rewrite (fresh_core now ts timeout (lud_secs_spec pflags lud)) by assumption.
  f_equal. lia.
Qed.

(* the property's wording: "both the report and the underlying last update are no older than the timeout" *)
Theorem is_market_open_iff raw pflags lud ts now timeout policy :
  - 2 ^ 63 <= now < 2 ^ 63 -> - 2 ^ 63 <= ts < 2 ^ 63 -> 0 <= timeout < 2 ^ 32 -> 0 <= lud < 2 ^ 32 ->
  is_market_open raw pflags lud ts now timeout policy = true <->
  ~ closed_spec raw policy /\ flag pflags 0 = true /\
  (flag pflags 1 = true ->
     now - ts <= timeout /\ now - (ts - lud_secs_spec pflags lud) <= timeout).
Proof.
  intros Hn Ht Hto Hl. rewrite is_market_open_eq by assumption. unfold open_spec, closed_b.
  pose proof (lud_secs_spec_range pflags lud Hl).
  rewrite <- openness_closed.
  destruct (openness (market_status raw) policy =? 1) eqn:C.
  - cbn. split; [discriminate|]. intros [HH _]. exfalso. apply HH. lia.
  - cbn [negb andb]. destruct (flag pflags 0); cbn [andb]; [|split; [discriminate|intros (_ & ? & _); discriminate]].
    destruct (flag pflags 1); cbn [negb orb].
    + rewrite Z.leb_le. split.
      * intros H1. split; [lia|]. split; [reflexivity|]. intros _. lia.
      * intros (_ & _ & H1). specialize (H1 eq_refl). lia.
    + split; [|reflexivity]. intros _. split; [lia|]. split; [reflexivity|discriminate].
Qed.
