(* C27 — property theorems only.  Hypotheses are the Rust argument types:
   current_timestamp, ts : i64; market_close_timeout, last_update_diff : u32;
   status byte, price flags, policy flags: any Z (only the named bits are read). *)
From GV Require Import lib.Base C27.Model C27.Proofs.
Open Scope Z_scope.

(* is_market_open, computed with i64 saturating_sub, equals the specification on unbounded
   integers for ALL inputs, including differences beyond the 64-bit range *)
Theorem c27_is_market_open_eq : forall raw pflags lud ts now timeout policy,
  - 2 ^ 63 <= now < 2 ^ 63 -> - 2 ^ 63 <= ts < 2 ^ 63 -> 0 <= timeout < 2 ^ 32 -> 0 <= lud < 2 ^ 32 ->
  is_market_open raw pflags lud ts now timeout policy =
    negb (openness (market_status raw) policy =? 1) && flag pflags 0 &&
    (negb (flag pflags 1) || (now - (ts - lud_secs_spec pflags lud) <=? timeout)).
Proof. exact is_market_open_eq. Qed.

(* the property's wording *)
Theorem c27_is_market_open_iff : forall raw pflags lud ts now timeout policy,
  - 2 ^ 63 <= now < 2 ^ 63 -> - 2 ^ 63 <= ts < 2 ^ 63 -> 0 <= timeout < 2 ^ 32 -> 0 <= lud < 2 ^ 32 ->
  is_market_open raw pflags lud ts now timeout policy = true <->
  ~ closed_spec raw policy /\ flag pflags 0 = true /\
  (flag pflags 1 = true ->
     now - ts <= timeout /\ now - (ts - lud_secs_spec pflags lud) <= timeout).
Proof. exact is_market_open_iff. Qed.

(* the two saturating branches the code comments argue about *)
Theorem c27_saturating_overflow_is_stale : forall now ts timeout secs,
  - 2 ^ 63 <= now < 2 ^ 63 -> - 2 ^ 63 <= ts < 2 ^ 63 -> 0 <= timeout < 2 ^ 32 -> 0 <= secs < 2 ^ 32 ->
  2 ^ 63 <= now - ts -> (now - ts + secs <=? timeout) = false.
Proof. exact sat_overflow_closed. Qed.
Theorem c27_saturating_underflow_is_fresh : forall now ts timeout secs,
  - 2 ^ 63 <= now < 2 ^ 63 -> - 2 ^ 63 <= ts < 2 ^ 63 -> 0 <= timeout < 2 ^ 32 -> 0 <= secs < 2 ^ 32 ->
  now - ts < - 2 ^ 63 -> (now - ts + secs <=? timeout) = true.
Proof. exact sat_underflow_open. Qed.

(* last-update difference in seconds: as stored, or nanoseconds rounded UP *)
Theorem c27_last_update_diff_secs : forall pflags lud,
  last_update_diff_secs pflags lud = if flag pflags 1 then Some (lud_secs_spec pflags lud) else None.
Proof. exact last_update_diff_secs_eq. Qed.
Theorem c27_nanos_round_up : forall a, 0 <= a ->
  let s := u32_div_ceil a NANOS in 0 <= s /\ (s - 1) * NANOS < a <= s * NANOS.
Proof. exact div_ceil_spec. Qed.

(* status / policy table; unknown raw bytes behave as Disabled (Skip) *)
Theorem c27_openness_closed : forall raw policy,
  openness (market_status raw) policy = 1 <-> closed_spec raw policy.
Proof. exact openness_closed. Qed.
Theorem c27_openness_skip : forall raw policy,
  openness (market_status raw) policy = 2 <-> ~ (1 <= raw <= 6).
Proof. exact openness_skip. Qed.
Theorem c27_openness_range : forall raw policy, 0 <= openness (market_status raw) policy <= 2.
Proof. exact openness_range. Qed.

(* non-vacuity, the repo's own extreme literals *)
Example c27_ex1 : is_market_open 0 3 4294967295 (- 2 ^ 63) (2 ^ 63 - 1) 4294967295 0 = false.
Proof. vm_compute. reflexivity. Qed.
Example c27_ex2 : is_market_open 0 3 4294967295 (2 ^ 63 - 1) (- 2 ^ 63) 0 0 = true.
Proof. vm_compute. reflexivity. Qed.
Example c27_ex3 : is_market_open 0 3 4294967295 (2 ^ 63 - 11) (2 ^ 63 - 1) 14 0 = false
               /\ is_market_open 0 3 4294967295 (2 ^ 63 - 11) (2 ^ 63 - 1) 15 0 = true.
Proof. vm_compute. split; reflexivity. Qed.
Example c27_ex4 : is_market_open 6 1 0 0 0 4294967295 0 = false /\ is_market_open 6 1 0 0 0 4294967295 32 = true
               /\ is_market_open 3 1 0 0 0 0 4 = false /\ is_market_open 99 1 0 0 0 0 0 = true.
Proof. vm_compute. repeat split; reflexivity. Qed.
