(* C20 — executable model of the market-config update policy of the store program:
     lib.rs            #[access_control(ensure_can_update_market_config)] on update_market_config(_flag/_with_buffer)
     authentication.rs ensure_has_any_role([MARKET_KEEPER, MARKET_CONFIG_KEEPER]) with `?` on every lookup
     roles.rs          RoleStore::has_role (not a member -> PermissionDenied; role absent -> NotFound; disabled -> PreconditionsAreNotMet)
     market.rs         unchecked_update_market_config / _flag / _with_buffer (in-handler only_market_keeper for non-updatable keys,
                       buffer expiry, buffer scan, sequential application)
   Anchor validates the accounts first (Signer, has_one), then the attribute, then the handler.  Definitions only. *)
From GV Require Import lib.Base.
From Coq Require Import String.
Open Scope string_scope.
Open Scope Z_scope.

(* symbolic error kinds (Corr.v maps them to the real numeric codes) *)
Definition E_NOT_SIGNER := 1.     (* anchor AccountNotSigner *)
Definition E_HAS_ONE := 2.        (* anchor ConstraintHasOne (market.store / buffer.store) *)
Definition E_PERM := 3.           (* CoreError::PermissionDenied *)
Definition E_NOT_FOUND := 4.      (* CoreError::NotFound: role not in the role table *)
Definition E_PRECOND := 5.        (* CoreError::PreconditionsAreNotMet: role disabled *)
Definition E_INVALID_KEY := 6.    (* CoreError::InvalidMarketConfigKey *)
Definition E_INVALID_ARG := 7.    (* CoreError::InvalidArgument: buffer expired *)

Inductive status := Enabled | Disabled | Absent.

(* what the store knows about the roles and the caller *)
Record env := mkEnv {
  mk_status : status;       (* MARKET_KEEPER in the role table *)
  mck_status : status;      (* MARKET_CONFIG_KEEPER in the role table *)
  member : bool;            (* caller has a membership entry *)
  bit_mk : bool;            (* caller's MARKET_KEEPER bit *)
  bit_mck : bool;           (* caller's MARKET_CONFIG_KEEPER bit *)
  signed : bool
}.

(* RoleStore::has_role (the store is assumed not outdated by a cluster restart) *)
Definition has_role (e : env) (mk : bool) : res bool :=
  if negb (member e) then Err E_PERM
  else match (if mk then mk_status e else mck_status e) with
       | Absent => Err E_NOT_FOUND
       | Disabled => Err E_PRECOND
       | Enabled => Ok (if mk then bit_mk e else bit_mck e)
       end.

(* ensure_has_any_role([MARKET_KEEPER, MARKET_CONFIG_KEEPER]) *)
Definition ensure_any (e : env) : res unit :=
  match has_role e true with
  | Err c => Err c
  | Ok true => Ok tt
  | Ok false =>
      match has_role e false with
      | Err c => Err c
      | Ok true => Ok tt
      | Ok false => Err E_PERM
      end
  end.

(* only_market_keeper *)
Definition only_mk (e : env) : res unit :=
  match has_role e true with
  | Err c => Err c
  | Ok true => Ok tt
  | Ok false => Err E_PERM
  end.

Section Cfg.
  Context {V : Type}.
  Definition cfg := string -> V.
  Definition cset (c : cfg) (k : string) (v : V) : cfg := fun k' => if String.eqb k' k then v else c k'.

  (* update_market_config / update_market_config_flag: `valid` = the key string parses to a variant,
     `upd` = the key is currently marked updatable, `store_ok` = market.store == store *)
  Definition update_one (e : env) (store_ok : bool) (valid upd : string -> bool) (c : cfg) (k : string) (v : V) : res cfg :=
    if negb (signed e) then Err E_NOT_SIGNER else
    if negb store_ok then Err E_HAS_ONE else
    _ <-- ensure_any e ;;
    if negb (valid k) then Err E_INVALID_KEY else
    _ <-- (if upd k then Ok tt else only_mk e) ;;
    Ok (cset c k v).

  (* a config buffer: entries carry a decoded key (None = the u16 does not decode to a variant) *)
  Record buffer := mkBuf {
    b_store_ok : bool;      (* buffer.store == store *)
    b_owner_ok : bool;      (* buffer.authority == caller *)
    b_expiry : Z;
    b_entries : list (option string * V)
  }.

  (* the scan done when the caller is not a market keeper: first offending entry decides *)
  Fixpoint scan (upd : string -> bool) (denied : Z) (es : list (option string * V)) : res unit :=
    match es with
    | [] => Ok tt
    | (None, _) :: _ => Err E_INVALID_KEY
    | (Some k, _) :: r => if upd k then scan upd denied r else Err denied
    end.

  (* Market::update_config_with_buffer: sequential writes, first undecodable key aborts *)
  Fixpoint apply_entries (c : cfg) (es : list (option string * V)) : res cfg :=
    match es with
    | [] => Ok c
    | (None, _) :: _ => Err E_INVALID_KEY
    | (Some k, v) :: r => apply_entries (cset c k v) r
    end.

  Definition update_with_buffer (e : env) (store_ok : bool) (upd : string -> bool) (now : Z) (b : buffer) (c : cfg) : res cfg :=
    if negb (signed e) then Err E_NOT_SIGNER else
    if negb store_ok then Err E_HAS_ONE else
    if negb (b_store_ok b) then Err E_HAS_ONE else
    if negb (b_owner_ok b) then Err E_PERM else
    _ <-- ensure_any e ;;
    if b_expiry b <=? now then Err E_INVALID_ARG else
    _ <-- match only_mk e with
          | Err denied => scan upd denied (b_entries b)
          | Ok _ => Ok tt
          end ;;
    apply_entries c (b_entries b).
End Cfg.

(* MarketConfigPermissions::set_flag_updatable / set_factor_updatable (called by set_market_config_updatable, a
   MARKET_KEEPER instruction): the request must CHANGE the bit (PreconditionsAreNotMet otherwise), then the bit
   takes the requested value.  `upd` is the updatable set as a function. *)
Definition set_updatable (valid : string -> bool) (upd : string -> bool) (k : string) (v : bool) : res (string -> bool) :=
  if negb (valid k) then Err E_INVALID_KEY
  else if Bool.eqb (upd k) v then Err E_PRECOND
  else Ok (fun k' => if String.eqb k' k then v else upd k').

(* the roles a caller effectively holds *)
Definition is_keeper (e : env) : bool := member e && bit_mk e && match mk_status e with Enabled => true | _ => false end.
Definition is_config_keeper (e : env) : bool := member e && bit_mck e && match mck_status e with Enabled => true | _ => false end.
