(* C20 — property theorems (pinned), about the model of Model.v (tied to the real entrypoints by
   harness/src/bin/c20.rs).  `is_keeper e` / `is_config_keeper e`: the caller is a member, has the role's
   bit and the role is enabled in the store.  All statements are for ALL environments, keys, values,
   updatable sets, configurations and buffers. *)
From GV Require Import lib.Base gen.C19Tables C20.Model C20.Proofs.
From Coq Require Import String.
Open Scope string_scope.
Open Scope Z_scope.

(* a market keeper may update ANY valid key (value or flag: V is arbitrary), updatable or not *)
Theorem c20_keeper_any_key : forall (V : Type) e valid upd (c : @cfg V) k v,
  signed e = true -> is_keeper e = true -> valid k = true ->
  update_one e true valid upd c k v = Ok (cset c k v).
Proof. intros. apply keeper_any_key; assumption. Qed.

(* a market-config keeper (who is not a market keeper) updates exactly the updatable keys
   — in a store whose MARKET_KEEPER role is enabled (see c20_mk_role_not_enabled_refuted below) *)
Theorem c20_config_keeper_only_updatable : forall (V : Type) e valid upd (c : @cfg V) k v,
  signed e = true -> is_keeper e = false -> is_config_keeper e = true -> mk_status e = Enabled -> valid k = true ->
  (upd k = true -> update_one e true valid upd c k v = Ok (cset c k v))
  /\ (upd k = false -> exists code, update_one e true valid upd c k v = Err code).
Proof. intros. apply config_keeper_only_updatable; assumption. Qed.

(* whenever an update is accepted the caller signed, the market belongs to the store, the key is valid, exactly
   that key was written, and the caller is a keeper or a config keeper with an updatable key — in EVERY store *)
Theorem c20_accepted_update_is_entitled : forall (V : Type) e store_ok valid upd (c c' : @cfg V) k v,
  update_one e store_ok valid upd c k v = Ok c' ->
  signed e = true /\ store_ok = true /\ valid k = true /\ c' = cset c k v
  /\ (is_keeper e = true \/ (is_config_keeper e = true /\ upd k = true)).
Proof. intros. eapply update_one_ok_inv. eassumption. Qed.

(* anyone else is rejected (single key, flag and buffer) *)
Theorem c20_others_rejected : forall (V : Type) e store_ok valid upd now b (c : @cfg V) k v,
  is_keeper e = false -> is_config_keeper e = false ->
  (exists code, update_one e store_ok valid upd c k v = Err code)
  /\ (exists code, update_with_buffer e store_ok upd now b c = Err code).
Proof. intros. split; [apply others_rejected_one|apply others_rejected_buffer]; assumption. Qed.

(* buffers are all-or-nothing for a config keeper: applied completely iff every entry is updatable *)
Theorem c20_buffer_all_or_nothing : forall (V : Type) e upd now b (c : @cfg V),
  signed e = true -> b_store_ok b = true -> b_owner_ok b = true -> now < b_expiry b ->
  is_keeper e = false -> is_config_keeper e = true -> mk_status e = Enabled ->
  (all_updatable upd (b_entries b) = true -> update_with_buffer e true upd now b c = Ok (writes c (b_entries b)))
  /\ (all_updatable upd (b_entries b) = false -> exists code, update_with_buffer e true upd now b c = Err code).
Proof. intros. apply buffer_all_or_nothing; assumption. Qed.

(* a keeper's buffer is applied completely iff every entry decodes *)
Theorem c20_keeper_buffer : forall (V : Type) e upd now b (c : @cfg V),
  signed e = true -> b_store_ok b = true -> b_owner_ok b = true -> now < b_expiry b -> is_keeper e = true ->
  (all_decodable (b_entries b) = true -> update_with_buffer e true upd now b c = Ok (writes c (b_entries b)))
  /\ (all_decodable (b_entries b) = false -> exists code, update_with_buffer e true upd now b c = Err code).
Proof. intros. apply keeper_buffer; assumption. Qed.

(* an accepted buffer was the caller's own, of this store, unexpired, applied in full, by an entitled caller *)
Theorem c20_accepted_buffer_is_entitled : forall (V : Type) e store_ok upd now b (c c' : @cfg V),
  update_with_buffer e store_ok upd now b c = Ok c' ->
  signed e = true /\ store_ok = true /\ b_store_ok b = true /\ b_owner_ok b = true /\ now < b_expiry b
  /\ c' = writes c (b_entries b)
  /\ (is_keeper e = true \/ (is_config_keeper e = true /\ all_updatable upd (b_entries b) = true)).
Proof. intros. eapply buffer_ok_inv. eassumption. Qed.

(* an expired buffer is never applied, whoever calls *)
Theorem c20_expired_never_applied : forall (V : Type) e store_ok upd now b (c : @cfg V),
  b_expiry b <= now -> exists code, update_with_buffer e store_ok upd now b c = Err code.
Proof. intros. apply expired_never_applied; assumption. Qed.

(* the updatable set follows grants and revocations: a request must change the bit, a successful request sets it to
   the requested value and touches no other key; after a revocation the config keeper is rejected for that key *)
Theorem c20_set_updatable_spec : forall valid upd k v upd', set_updatable valid upd k v = Ok upd' ->
  valid k = true /\ upd k = negb v /\ upd' k = v /\ forall k', k' <> k -> upd' k' = upd k'.
Proof. exact set_updatable_ok. Qed.
Theorem c20_set_updatable_must_change : forall valid upd k,
  set_updatable valid upd k (upd k) = Err E_PRECOND \/ valid k = false.
Proof. exact set_updatable_same_rejected. Qed.
Theorem c20_revoked_key_rejected : forall (V : Type) e valid upd upd' (c : @cfg V) k v,
  set_updatable valid upd k false = Ok upd' ->
  signed e = true -> is_keeper e = false -> is_config_keeper e = true -> mk_status e = Enabled ->
  exists code, update_one e true valid upd' c k v = Err code.
Proof. intros. eapply revoked_key_rejected; eassumption. Qed.

(* FINDING (class 1, MarketKeeperRoleNotEnabled): where MARKET_KEEPER is disabled or was never created, every
   update is rejected — also the config keeper's request for an updatable key, which the property text grants *)
Theorem c20_mk_role_not_enabled_blocks_everyone : forall e valid upd (c : @cfg Z) k v,
  mk_status e <> Enabled -> exists code, update_one e true valid upd c k v = Err code.
Proof. exact mk_not_enabled_blocks_config_keeper. Qed.

Lemma c20_mk_role_not_enabled_refuted :
  exists e k, signed e = true /\ is_config_keeper e = true /\
    update_one e true (fun _ => true) (fun _ => true) (fun _ => 0) k 5 = Err E_PRECOND.
Proof. exists (mkEnv Disabled Enabled true false true true), "funding_fee_min_factor_per_second". repeat split. Qed.

(* tie to the source: in the access table REGENERATED from lib.rs the three entrypoints carry exactly the
   attribute the model starts with — ensure_has_any_role([MARKET_KEEPER, MARKET_CONFIG_KEEPER]) on a Signer *)
Definition entry_guards : list (string * guard) :=
  map (fun i => (i_name i, i_guard i))
      (filter (fun i => String.eqb (i_prog i) "store" && String.prefix "update_market_config" (i_name i)) instructions).
Theorem c20_entry_guards :
  entry_guards = [("update_market_config", GAny ["MARKET_KEEPER"; "MARKET_CONFIG_KEEPER"]);
                  ("update_market_config_flag", GAny ["MARKET_KEEPER"; "MARKET_CONFIG_KEEPER"]);
                  ("update_market_config_with_buffer", GAny ["MARKET_KEEPER"; "MARKET_CONFIG_KEEPER"])].
Proof. vm_compute. reflexivity. Qed.

(* ---- non-vacuity ---- *)
Example c20_example_config_keeper :
  let e := mkEnv Enabled Enabled true false true true in
  let upd k := String.eqb k "reserve_factor" in
  update_one e true (fun _ => true) upd (fun _ => 0) "reserve_factor" 7 = Ok (cset (fun _ => 0) "reserve_factor" 7)
  /\ update_one e true (fun _ => true) upd (fun _ => 0) "min_collateral_value" 7 = Err E_PERM
  /\ update_with_buffer e true upd 10 (mkBuf true true 11 [(Some "reserve_factor", 1); (Some "min_collateral_value", 2)]) (fun _ => 0) = Err E_PERM
  /\ (exists c', update_with_buffer e true upd 10 (mkBuf true true 11 [(Some "reserve_factor", 1); (Some "reserve_factor", 2)]) (fun _ => 0) = Ok c' /\ c' "reserve_factor" = 2)
  /\ update_with_buffer e true upd 11 (mkBuf true true 11 [(Some "reserve_factor", 1)]) (fun _ => 0) = Err E_INVALID_ARG.
Proof. repeat split; try reflexivity. eexists. split; reflexivity. Qed.
