From GV Require Import lib.Base C20.Model.
From Coq Require Import String.
Open Scope string_scope.
Open Scope Z_scope.

Ltac env_cases e := destruct e as [mks mcks mem bmk bmck sg]; destruct mks, mcks, mem, bmk, bmck, sg.

Lemma keeper_ensure : forall e, is_keeper e = true -> ensure_any e = Ok tt /\ only_mk e = Ok tt.
Proof. intros e H. env_cases e; cbn in *; try discriminate; split; reflexivity. Qed.

Lemma is_ok_ensure : forall e, ensure_any e = Ok tt ->
  is_keeper e = true \/ (is_config_keeper e = true /\ mk_status e = Enabled).
Proof. intros e H. env_cases e; cbn in *; try discriminate; auto. Qed.

Lemma only_mk_ok_iff : forall e, only_mk e = Ok tt <-> is_keeper e = true.
Proof. intros e. env_cases e; cbn; split; intros H; try discriminate; reflexivity. Qed.

Lemma only_mk_cases : forall e, only_mk e = Ok tt \/ exists c, only_mk e = Err c.
Proof. intros e. destruct (only_mk e) as [[]|c]; [left; reflexivity|right; exists c; reflexivity]. Qed.

Section Cfg.
  Context {V : Type}.
  Notation cfg := (@cfg V).

  (* ---- single key / flag ---- *)
  Lemma keeper_any_key : forall e valid upd (c : cfg) k v,
    signed e = true -> is_keeper e = true -> valid k = true ->
    update_one e true valid upd c k v = Ok (cset c k v).
  Proof.
    intros e valid upd c k v Hs Hk Hv. unfold update_one. rewrite Hs, Hv. cbn [negb].
    destruct (keeper_ensure e Hk) as [-> ->]. cbn. destruct (upd k); reflexivity.
  Qed.

  Lemma config_keeper_only_updatable : forall e valid upd (c : cfg) k v,
    signed e = true -> is_keeper e = false -> is_config_keeper e = true -> mk_status e = Enabled -> valid k = true ->
    (upd k = true -> update_one e true valid upd c k v = Ok (cset c k v))
    /\ (upd k = false -> exists code, update_one e true valid upd c k v = Err code).
  Proof.
    intros e valid upd c k v Hs Hnk Hck Hmk Hv. unfold update_one. rewrite Hs, Hv. cbn [negb].
    env_cases e; cbn in *; try discriminate; split; intros ->; cbn; eauto.
  Qed.

  Lemma others_rejected_one : forall e store_ok valid upd (c : cfg) k v,
    is_keeper e = false -> is_config_keeper e = false ->
    exists code, update_one e store_ok valid upd c k v = Err code.
  Proof.
    intros e so valid upd c k v Hnk Hnc. unfold update_one.
    destruct (signed e); cbn [negb]; [|eauto]. destruct so; cbn [negb]; [|eauto].
    env_cases e; cbn in *; try discriminate; eauto.
  Qed.

  Lemma update_one_ok_inv : forall e store_ok valid upd (c c' : cfg) k v,
    update_one e store_ok valid upd c k v = Ok c' ->
    signed e = true /\ store_ok = true /\ valid k = true /\ c' = cset c k v
    /\ (is_keeper e = true \/ (is_config_keeper e = true /\ upd k = true)).
  Proof.
    intros e so valid upd c c' k v H. unfold update_one in H.
    destruct (signed e) eqn:Hs; cbn [negb] in H; [|discriminate].
    destruct so; cbn [negb] in H; [|discriminate].
    destruct (ensure_any e) as [[]|] eqn:He; cbn in H; [|discriminate].
    destruct (valid k) eqn:Hv; cbn [negb] in H; [|discriminate].
    destruct (upd k) eqn:Hu.
    - cbn in H. injection H as <-. repeat split; try reflexivity.
      destruct (is_ok_ensure e He) as [Hk|[Hc _]]; [left; exact Hk|right; split; [exact Hc|reflexivity]].
    - destruct (only_mk e) as [[]|] eqn:Ho; cbn in H; [|discriminate]. injection H as <-.
      repeat split; try reflexivity. left. apply only_mk_ok_iff. exact Ho.
  Qed.

  (* ---- buffers ---- *)
  Definition all_updatable (upd : string -> bool) (es : list (option string * V)) : bool :=
    forallb (fun kv => match fst kv with Some k => upd k | None => false end) es.
  Definition all_decodable (es : list (option string * V)) : bool :=
    forallb (fun kv => match fst kv with Some _ => true | None => false end) es.

  Lemma scan_ok_iff : forall upd denied es, scan (V:=V) upd denied es = Ok tt <-> all_updatable upd es = true.
  Proof.
    induction es as [|[[k|] v] r IH]; cbn; [tauto| |split; discriminate].
    destruct (upd k); cbn; [exact IH|split; discriminate].
  Qed.

  Lemma apply_ok_iff : forall es (c : cfg), (exists c', apply_entries c es = Ok c') <-> all_decodable es = true.
  Proof.
    induction es as [|[[k|] v] r IH]; intros c; cbn.
    - split; [reflexivity|intros _; eauto].
    - apply IH.
    - split; [intros [c' H]; discriminate|discriminate].
  Qed.

  Lemma all_updatable_decodable : forall upd es, all_updatable upd es = true -> all_decodable es = true.
  Proof.
    induction es as [|[[k|] v] r IH]; cbn; [reflexivity| |discriminate].
    destruct (upd k); cbn; [exact IH|discriminate].
  Qed.

  (* what applying a fully decodable buffer yields *)
  Fixpoint writes (c : cfg) (es : list (option string * V)) : cfg :=
    match es with
    | [] => c
    | (Some k, v) :: r => writes (cset c k v) r
    | (None, _) :: r => writes c r
    end.

  Lemma apply_writes : forall es (c c' : cfg), apply_entries c es = Ok c' -> c' = writes c es.
  Proof.
    induction es as [|[[k|] v] r IH]; intros c c' H; cbn in *; [injection H as <-; reflexivity| |discriminate].
    exact (IH _ _ H).
  Qed.

  Lemma expired_never_applied : forall e store_ok upd now b (c : cfg),
    b_expiry b <= now -> exists code, update_with_buffer e store_ok upd now b c = Err code.
  Proof.
    intros e so upd now b c Hexp. unfold update_with_buffer.
    destruct (signed e); cbn [negb]; [|eauto]. destruct so; cbn [negb]; [|eauto].
    destruct (b_store_ok b); cbn [negb]; [|eauto]. destruct (b_owner_ok b); cbn [negb]; [|eauto].
    destruct (ensure_any e) as [[]|code]; cbn; [|eauto].
    apply Z.leb_le in Hexp. rewrite Hexp. eauto.
  Qed.

  Lemma others_rejected_buffer : forall e store_ok upd now b (c : cfg),
    is_keeper e = false -> is_config_keeper e = false ->
    exists code, update_with_buffer e store_ok upd now b c = Err code.
  Proof.
    intros e so upd now b c Hnk Hnc. unfold update_with_buffer.
    destruct (signed e); cbn [negb]; [|eauto]. destruct so; cbn [negb]; [|eauto].
    destruct (b_store_ok b); cbn [negb]; [|eauto]. destruct (b_owner_ok b); cbn [negb]; [|eauto].
    env_cases e; cbn in *; try discriminate; eauto.
  Qed.

  Lemma buffer_all_or_nothing : forall e upd now b (c : cfg),
    signed e = true -> b_store_ok b = true -> b_owner_ok b = true -> now < b_expiry b ->
    is_keeper e = false -> is_config_keeper e = true -> mk_status e = Enabled ->
    (all_updatable upd (b_entries b) = true -> update_with_buffer e true upd now b c = Ok (writes c (b_entries b)))
    /\ (all_updatable upd (b_entries b) = false -> exists code, update_with_buffer e true upd now b c = Err code).
  Proof.
    intros e upd now b c Hs Hbs Hbo Hexp Hnk Hck Hmk. unfold update_with_buffer.
    rewrite Hs, Hbs, Hbo. cbn [negb].
    assert (ensure_any e = Ok tt /\ only_mk e = Err E_PERM) as [-> ->].
    { env_cases e; cbn in *; try discriminate; split; reflexivity. }
    cbn [rbind]. assert (b_expiry b <=? now = false) as -> by (apply Z.leb_gt; lia).
    split; intros Hall.
    - destruct (scan_ok_iff upd E_PERM (b_entries b)) as [_ H]. rewrite (H Hall). cbn [rbind].
      destruct (apply_ok_iff (b_entries b) c) as [_ H2].
      destruct (H2 (all_updatable_decodable _ _ Hall)) as [c' Hc']. rewrite Hc'. f_equal. exact (apply_writes _ _ _ Hc').
    - destruct (scan upd E_PERM (b_entries b)) as [[]|code] eqn:Hsc.
      + apply scan_ok_iff in Hsc. rewrite Hsc in Hall. discriminate.
      + cbn. eauto.
  Qed.

  Lemma keeper_buffer : forall e upd now b (c : cfg),
    signed e = true -> b_store_ok b = true -> b_owner_ok b = true -> now < b_expiry b -> is_keeper e = true ->
    (all_decodable (b_entries b) = true -> update_with_buffer e true upd now b c = Ok (writes c (b_entries b)))
    /\ (all_decodable (b_entries b) = false -> exists code, update_with_buffer e true upd now b c = Err code).
  Proof.
    intros e upd now b c Hs Hbs Hbo Hexp Hk. unfold update_with_buffer. rewrite Hs, Hbs, Hbo. cbn [negb].
    destruct (keeper_ensure e Hk) as [-> ->]. cbn [rbind].
    assert (b_expiry b <=? now = false) as -> by (apply Z.leb_gt; lia).
    split; intros Hall.
    - destruct (apply_ok_iff (b_entries b) c) as [_ H2]. destruct (H2 Hall) as [c' Hc']. rewrite Hc'. f_equal. exact (apply_writes _ _ _ Hc').
    - destruct (apply_entries c (b_entries b)) as [c'|code] eqn:Ha; [|eauto].
      assert (all_decodable (b_entries b) = true) as H by (apply (apply_ok_iff (b_entries b) c); eauto). rewrite H in Hall. discriminate.
  Qed.

  (* success of a buffer update characterised *)
  Lemma buffer_ok_inv : forall e store_ok upd now b (c c' : cfg),
    update_with_buffer e store_ok upd now b c = Ok c' ->
    signed e = true /\ store_ok = true /\ b_store_ok b = true /\ b_owner_ok b = true /\ now < b_expiry b
    /\ c' = writes c (b_entries b)
    /\ (is_keeper e = true \/ (is_config_keeper e = true /\ all_updatable upd (b_entries b) = true)).
  Proof.
    intros e so upd now b c c' H. unfold update_with_buffer in H.
    destruct (signed e) eqn:Hs; cbn [negb] in H; [|discriminate].
    destruct so; cbn [negb] in H; [|discriminate].
    destruct (b_store_ok b); cbn [negb] in H; [|discriminate].
    destruct (b_owner_ok b); cbn [negb] in H; [|discriminate].
    destruct (ensure_any e) as [[]|] eqn:He; cbn [rbind] in H; [|discriminate].
    destruct (b_expiry b <=? now) eqn:Hexp; [discriminate|]. apply Z.leb_gt in Hexp.
    destruct (only_mk e) as [[]|denied] eqn:Ho; cbn [rbind] in H.
    - repeat split; try reflexivity; try lia. { exact (apply_writes _ _ _ H). } left. apply only_mk_ok_iff. exact Ho.
    - destruct (scan upd denied (b_entries b)) as [[]|] eqn:Hsc; cbn [rbind] in H; [|discriminate].
      repeat split; try reflexivity; try lia. { exact (apply_writes _ _ _ H). }
      right. split; [|apply (scan_ok_iff upd denied); exact Hsc].
      destruct (is_ok_ensure e He) as [Hk|[Hc _]]; [|exact Hc].
      apply only_mk_ok_iff in Hk. rewrite Hk in Ho. discriminate.
  Qed.
End Cfg.

(* ---- grant / revoke of the updatable permission ---- *)
Lemma set_updatable_ok : forall valid upd k v upd', set_updatable valid upd k v = Ok upd' ->
  valid k = true /\ upd k = negb v /\ upd' k = v /\ forall k', k' <> k -> upd' k' = upd k'.
Proof.
  intros valid upd k v upd' H. unfold set_updatable in H.
  destruct (valid k); cbn [negb] in H; [|discriminate].
  destruct (Bool.eqb (upd k) v) eqn:E; [discriminate|]. injection H as <-.
  repeat split.
  - destruct (upd k), v; cbn in *; try discriminate; reflexivity.
  - rewrite String.eqb_refl. reflexivity.
  - intros k' Hne. destruct (String.eqb k' k) eqn:Ek; [apply String.eqb_eq in Ek; contradiction|reflexivity].
Qed.

Lemma set_updatable_same_rejected : forall valid upd k, set_updatable valid upd k (upd k) = Err E_PRECOND \/ valid k = false.
Proof.
  intros valid upd k. unfold set_updatable. destruct (valid k); [left|right; reflexivity].
  cbn [negb]. rewrite Bool.eqb_reflx. reflexivity.
Qed.

(* after a successful revocation a config keeper (who is not a keeper) can no longer update that key / flag *)
Lemma revoked_key_rejected : forall (V : Type) e valid upd upd' (c : @cfg V) k v,
  set_updatable valid upd k false = Ok upd' ->
  signed e = true -> is_keeper e = false -> is_config_keeper e = true -> mk_status e = Enabled ->
  exists code, update_one e true valid upd' c k v = Err code.
Proof.
  intros V e valid upd upd' c k v Hset Hs Hnk Hck Hmk.
  destruct (set_updatable_ok _ _ _ _ _ Hset) as (Hv & _ & Hu & _).
  destruct (config_keeper_only_updatable e valid upd' c k v Hs Hnk Hck Hmk Hv) as [_ H]. exact (H Hu).
Qed.

(* ---- the configuration in which the literal property fails: MARKET_KEEPER not enabled ---- *)
Lemma mk_not_enabled_blocks_config_keeper : forall e valid upd (c : @cfg Z) k v,
  mk_status e <> Enabled -> exists code, update_one e true valid upd c k v = Err code.
Proof.
  intros e valid upd c k v Hmk. unfold update_one.
  destruct (signed e); cbn [negb]; [|eauto].
  env_cases e; cbn in *; try congruence; eauto.
Qed.
