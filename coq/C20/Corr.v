(* C20 — correspondence and oracle predicates for the cases printed by harness/src/bin/c20.rs
   (the real update_market_config / _flag / _with_buffer entrypoints run in-process). *)
From GV Require Import lib.Base gen.C16Tables.
From GV Require Export C20.Model.
From Coq Require Export String.
Open Scope string_scope.
Open Scope Z_scope.

Inductive case :=
| Codes (not_signer has_one perm not_found precond invalid_key invalid_arg : Z)
| Upd (mk mck : Z) (member bmk bmck signed store_ok : bool)
      (key : string) (upd : bool) (v : Z) (ok : bool) (code : Z) (before after : Z)
      (others_changed other_kind_changed : list string)
| UpdFlag (mk mck : Z) (member bmk bmck signed store_ok : bool)
      (key : string) (upd : bool) (v : bool) (ok : bool) (code : Z) (before after : bool)
      (others_changed other_kind_changed : list string)
| SetUpd (is_flag : bool) (key : string) (cur arg : bool) (ok : bool) (code : Z)
    (* set_market_config_updatable(is_flag, key, arg) by a MARKET_KEEPER; cur = the permission of that key according to
       the history of earlier successful grants / revocations in this store *)
| UpdBuf (mk mck : Z) (member bmk bmck signed store_ok bstore_ok bowner_ok : bool) (expiry now : Z)
      (entries : list (option string * bool * Z * Z * Z))      (* decoded key, updatable, new value, value before, value after *)
      (ok : bool) (code : Z) (others_changed other_kind_changed : list string).
    (* mk / mck: 0 role enabled, 1 disabled, 2 never created.  member / bmk / bmck: the caller's membership and role bits.
       store_ok: market.store = store; bstore_ok / bowner_ok: buffer.store = store, buffer.authority = caller. *)

Definition st_of (z : Z) : status := if z =? 0 then Enabled else if z =? 1 then Disabled else Absent.
Definition env_of (mk mck : Z) (member bmk bmck signed : bool) : env := mkEnv (st_of mk) (st_of mck) member bmk bmck signed.

(* real numeric codes of the symbolic errors (checked against the program's own values by the Codes case) *)
Definition real_code (e : Z) : Z :=
  if e =? E_NOT_SIGNER then 3010 else if e =? E_HAS_ONE then 2001 else if e =? E_PERM then 6004
  else if e =? E_NOT_FOUND then 6009 else if e =? E_PRECOND then 6008 else if e =? E_INVALID_KEY then 6109
  else if e =? E_INVALID_ARG then 6007 else (-1).

Definition smem (k : string) (l : list string) : bool := existsb (String.eqb k) l.
Definition nil_b {A} (l : list A) : bool := match l with [] => true | _ => false end.

(* ---------- model == implementation ---------- *)
Definition corr_b (c : case) : bool :=
  match c with
  | Codes a b p n q k g =>
      (a =? real_code E_NOT_SIGNER) && (b =? real_code E_HAS_ONE) && (p =? real_code E_PERM) && (n =? real_code E_NOT_FOUND)
      && (q =? real_code E_PRECOND) && (k =? real_code E_INVALID_KEY) && (g =? real_code E_INVALID_ARG)
  | Upd mk mck member bmk bmck signed store_ok key upd v ok code before after oc okc =>
      nil_b oc && nil_b okc &&
      match update_one (env_of mk mck member bmk bmck signed) store_ok (fun k => smem k config_keys) (fun _ => upd)
                       (fun _ => before) key v with
      | Ok c' => ok && (after =? c' key)
      | Err e => negb ok && (code =? real_code e) && (after =? before)
      end
  | UpdFlag mk mck member bmk bmck signed store_ok key upd v ok code before after oc okc =>
      nil_b oc && nil_b okc &&
      match update_one (env_of mk mck member bmk bmck signed) store_ok (fun k => smem k config_flags) (fun _ => upd)
                       (fun _ => before) key v with
      | Ok c' => ok && Bool.eqb after (c' key)
      | Err e => negb ok && (code =? real_code e) && Bool.eqb after before
      end
  | SetUpd is_flag key cur arg ok code =>
      match set_updatable (fun k => smem k (if is_flag then config_flags else config_keys)) (fun _ => cur) key arg with
      | Ok upd' => ok && Bool.eqb (upd' key) arg
      | Err e => negb ok && (code =? real_code e)
      end
  | UpdBuf mk mck member bmk bmck signed store_ok bstore_ok bowner_ok expiry now entries ok code oc okc =>
      nil_b oc && nil_b okc &&
      let es := map (fun x => match x with (k, _, v, _, _) => (k, v) end) entries in
      let upd k := existsb (fun x => match x with (Some k', u, _, _, _) => String.eqb k k' && u | _ => false end) entries in
      let c0 k := match find (fun x => match x with (Some k', _, _, _, _) => String.eqb k k' | _ => false end) entries with
                  | Some (_, _, _, b, _) => b | None => 0 end in
      match update_with_buffer (env_of mk mck member bmk bmck signed) store_ok upd now (mkBuf bstore_ok bowner_ok expiry es) c0 with
      | Ok c' => ok && forallb (fun x => match x with (Some k, _, _, _, a) => a =? c' k | _ => false end) entries
      | Err e => negb ok && (code =? real_code e)
                 && forallb (fun x => match x with (Some _, _, _, b, a) => a =? b | (None, _, _, _, _) => true end) entries
      end
  end.

(* ---------- the PROPERTY on the real outcomes ---------- *)
Definition keeper (mk : Z) (member bmk : bool) : bool := member && bmk && (mk =? 0).
Definition cfg_keeper (mck : Z) (member bmck : bool) : bool := member && bmck && (mck =? 0).

(* the last value written to key k by the buffer *)
Definition last_write (entries : list (option string * bool * Z * Z * Z)) (k : string) : option Z :=
  fold_left (fun acc x => match x with (Some k', _, v, _, _) => if String.eqb k k' then Some v else acc | _ => acc end) entries None.

Definition entitled_one (mk mck : Z) (member bmk bmck : bool) (upd : bool) : bool :=
  keeper mk member bmk || (cfg_keeper mck member bmck && upd).

Definition oracle_b (c : case) : bool :=
  match c with
  | Codes _ _ _ _ _ _ _ => true
  | Upd mk mck member bmk bmck signed store_ok key upd v ok code before after oc okc =>
      let valid := smem key config_keys in
      nil_b oc && nil_b okc &&
      (if ok
       then (* accepted: signed keeper (any key) or config keeper (updatable key only); the value is written *)
            signed && valid && entitled_one mk mck member bmk bmck upd && (after =? v)
       else (* rejected: nothing changes; and a rightful, well-formed request is never rejected *)
            (after =? before) && negb (signed && store_ok && valid && entitled_one mk mck member bmk bmck upd))
  | UpdFlag mk mck member bmk bmck signed store_ok key upd v ok code before after oc okc =>
      let valid := smem key config_flags in
      nil_b oc && nil_b okc &&
      (if ok
       then signed && valid && entitled_one mk mck member bmk bmck upd && Bool.eqb after v
       else Bool.eqb after before && negb (signed && store_ok && valid && entitled_one mk mck member bmk bmck upd))
  | SetUpd is_flag key cur arg ok code =>
      (* a grant / revocation succeeds exactly when it changes the permission; a no-op request is PreconditionsAreNotMet *)
      if smem key (if is_flag then config_flags else config_keys)
      then (if Bool.eqb cur arg then negb ok && (code =? 6008) else ok)
      else negb ok
  | UpdBuf mk mck member bmk bmck signed store_ok bstore_ok bowner_ok expiry now entries ok code oc okc =>
      let decodable := forallb (fun x => match x with (Some _, _, _, _, _) => true | _ => false end) entries in
      let all_upd := forallb (fun x => match x with (Some _, u, _, _, _) => u | _ => false end) entries in
      let entitled := keeper mk member bmk || (cfg_keeper mck member bmck && all_upd) in
      let wellformed := signed && store_ok && bstore_ok && bowner_ok && (now <? expiry) && decodable in
      nil_b oc && nil_b okc &&
      (if ok
       then (* never expired, never someone else's buffer, all-or-nothing: every entry applied (last write wins) *)
            wellformed && entitled
            && forallb (fun x => match x with (Some k, _, _, _, a) => oeqb (last_write entries k) (Some a) | _ => false end) entries
       else (* nothing applied at all *)
            forallb (fun x => match x with (Some _, _, _, b, a) => a =? b | _ => true end) entries
            && negb (wellformed && entitled))
  end.

(* Known finding class 1 (MarketKeeperRoleNotEnabled): a MARKET_CONFIG_KEEPER asking for updatable keys is rejected
   because ensure_has_any_role looks MARKET_KEEPER up first and propagates that lookup's error when the
   MARKET_KEEPER role is disabled or was never created in the store. *)
Definition known_b (c : case) : Z :=
  match c with
  | Upd mk mck member bmk bmck signed store_ok key upd v ok code before after oc okc =>
      if negb ok && negb (mk =? 0) && negb (keeper mk member bmk) && cfg_keeper mck member bmck && upd
         && signed && store_ok && smem key config_keys && ((code =? 6008) || (code =? 6009)) && (after =? before)
         && nil_b oc && nil_b okc then 1 else 0
  | UpdFlag mk mck member bmk bmck signed store_ok key upd v ok code before after oc okc =>
      if negb ok && negb (mk =? 0) && cfg_keeper mck member bmck && upd
         && signed && store_ok && smem key config_flags && ((code =? 6008) || (code =? 6009)) && Bool.eqb after before
         && nil_b oc && nil_b okc then 1 else 0
  | UpdBuf mk mck member bmk bmck signed store_ok bstore_ok bowner_ok expiry now entries ok code oc okc =>
      if negb ok && negb (mk =? 0) && cfg_keeper mck member bmck
         && forallb (fun x => match x with (Some _, u, _, _, _) => u | _ => false end) entries
         && signed && store_ok && bstore_ok && bowner_ok && (now <? expiry) && ((code =? 6008) || (code =? 6009))
         && forallb (fun x => match x with (Some _, _, _, b, a) => a =? b | _ => true end) entries
         && nil_b oc && nil_b okc then 1 else 0
  | _ => 0
  end.
