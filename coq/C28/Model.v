(* C28 — model of crates/chainlink-datastreams/src/report.rs (decode_full_report, the field mapping and
   numeric conversions of decode) and src/gmsol.rs (PriceFeedPrice::from_chainlink_report).
   Byte strings are [list Z] with entries in 0..255.  Definitions only.

   The third-party ReportDataVx::decode / abi_encode and snap decompression are NOT modelled. *)
From GV Require Import lib.Base C26.Model.
Open Scope Z_scope.

(* ---------- decode_full_report ---------- *)
Definition len (l : list Z) : Z := Z.of_nat (length l).

(* &l[a..b] : None = the slice expression panics (a > b or b > len) *)
Definition slice (l : list Z) (a b : Z) : option (list Z) :=
  if (a <? 0) || (b <? a) || (len l <? b) then None
  else Some (firstn (Z.to_nat (b - a)) (skipn (Z.to_nat a) l)).

(* usize::from_be_bytes of an 8-byte slice *)
Definition be (l : list Z) : Z := fold_left (fun acc x => acc * 256 + x) l 0.

(* usize::checked_add (64-bit target) *)
Definition usize_add (a b : Z) : option Z := chk_u 64 (a + b).

(* outer option: None = panic (an out-of-range slice);
   Err 1 = DataTooShort, Err 2 = InvalidLength;
   Ok (context words concatenated, start of the blob, length of the blob, blob) *)
Definition decode_full_report (p : list Z) : option (res (list Z * Z * Z * list Z)) :=
  if len p <? 128 then Some (Err 1)
  else
    c0 <- slice p 0 32 ;; c1 <- slice p 32 64 ;; c2 <- slice p 64 96 ;;
    w <- slice p 96 128 ;; ob <- slice w 24 32 ;;
    let offset := be ob in
    if offset <? 128 then Some (Err 2)
    else
      match usize_add offset 32 with
      | None => Some (Err 2)
      | Some length_end =>
          if len p <? length_end then Some (Err 2)
          else
            lw <- slice p offset length_end ;; lb <- slice lw 24 32 ;;
            let length := be lb in
            match usize_add length_end length with
            | None => Some (Err 2)
            | Some blob_end =>
                if len p <? blob_end then Some (Err 2)
                else
                  blob <- slice p length_end blob_end ;;
                  Some (Ok (c0 ++ c1 ++ c2, length_end, length, blob))
            end
      end.

(* ---------- decode: field mapping after the third-party ReportDataVx::decode ---------- *)
(* decoded third-party report: version, observations_timestamp, the three price-like fields as
   signed integers (for v2 / v7 / v8 only [f_price] is present and copied to bid and ask),
   the nanosecond "last update" field (v8, v11) and the raw market status (v8, v11) *)
Record fields := mkFields {
  f_version : Z; f_obs : Z; f_price : Z; f_bid : Z; f_ask : Z; f_last : Z; f_status : Z }.

(* Signed = (sign, magnitude); sign true = non-negative *)
Definition signed := (bool * Z)%type.
Definition to_signed_mag (x : Z) : res signed :=       (* bigint_to_signed: InvalidData above 192 bits *)
  if 2 ^ 192 <=? Z.abs x then Err 1 else Ok (negb (x <? 0), Z.abs x).

(* the decoded Report as far as from_chainlink_report reads it;
   r_ext: None, or Some 0..5 = Unknown, PreMarket, RegularHours, PostMarket, Overnight, Closed *)
Record report := mkReport {
  r_price : signed; r_bid : signed; r_ask : signed; r_obs : Z; r_last : option Z; r_ext : option Z }.

(* Err 1 = InvalidData, Err 3 = UnsupportedVersion *)
Definition report_of (f : fields) : res report :=
  let v := f_version f in
  if (v =? 2) || (v =? 7) then
    p <-- to_signed_mag (f_price f) ;; Ok (mkReport p p p (f_obs f) None None)
  else if v =? 3 then
    p <-- to_signed_mag (f_price f) ;; b <-- to_signed_mag (f_bid f) ;; a <-- to_signed_mag (f_ask f) ;;
    Ok (mkReport p b a (f_obs f) None None)
  else if v =? 8 then
    p <-- to_signed_mag (f_price f) ;;
    (* decode_market_status: 0 Unknown, 1 Closed, 2 Open -> extended Unknown(0) / Closed(5) / RegularHours(2) *)
    e <-- (if f_status f =? 0 then Ok 0 else if f_status f =? 1 then Ok 5 else if f_status f =? 2 then Ok 2 else Err 1) ;;
    Ok (mkReport p p p (f_obs f) (Some (f_last f)) (Some e))
  else if v =? 11 then
    e <-- (if (0 <=? f_status f) && (f_status f <=? 5) then Ok (f_status f) else Err 1) ;;
    p <-- to_signed_mag (f_price f) ;; b <-- to_signed_mag (f_bid f) ;; a <-- to_signed_mag (f_ask f) ;;
    Ok (mkReport p b a (f_obs f) (Some (f_last f)) (Some e))
  else Err 3.

(* ---------- PriceFeedPrice::from_chainlink_report ---------- *)
(* the stored feed price: decimals, flags byte, market status byte, last_update_diff, ts, price, min, max *)
Record pfp := mkPfp { p_dec : Z; p_flags : Z; p_status : Z; p_lud : Z; p_ts : Z; p_price : Z; p_min : Z; p_max : Z }.

Definition NANOS : Z := 1000000000.
Definition non_negative (s : signed) : option Z := if fst s then Some (snd s) else None.

(* FeedMarketStatus byte: Disabled 0, Unknown 1, PreMarket 2, RegularHours 3, PostMarket 4, Overnight 5, Closed 6 *)
Definition canonical_status (e : option Z) : Z := match e with None => 0 | Some x => x + 1 end.

(* outer None = panic (a try_into().unwrap() of a quotient that does not fit u128);
   Err 1 / 2 / 3 = NegativePrice price / bid / ask, Err 4 = "ask < price", Err 5 = "price < bid",
   Err 6 = Overflow divisor_decimals, Err 7 = Overflow observations_timestamp, Err 8 = last update ahead by >= 1 s *)
Definition from_report (r : report) : option (res pfp) :=
  match non_negative (r_price r) with None => Some (Err 1) | Some price =>
  match non_negative (r_bid r) with None => Some (Err 2) | Some bid =>
  match non_negative (r_ask r) with None => Some (Err 3) | Some ask =>
    if ask <? price then Some (Err 4)
    else if price <? bid then Some (Err 5)
    else
      let k := find_divisor_decimals ask in
      if 18 <? k then Some (Err 6)
      else
        let divisor := 10 ^ k in
        match (match r_last r with
               | None => Ok (None, true)
               | Some lts =>
                   match umul 64 (r_obs r) NANOS with
                   | None => Err 7
                   | Some obs_ns =>
                       match (if lts <=? obs_ns then Ok (obs_ns - lts)
                              else if NANOS <=? lts - obs_ns then Err 8 else Ok 0) with
                       | Err x => Err x
                       | Ok diff =>
                           let secs := div_ceil diff NANOS in
                           if secs <? 2 ^ 32 then Ok (Some secs, true) else Ok (Some (2 ^ 32 - 1), false)
                       end
                   end
               end) with
        | Err x => Some (Err x)
        | Ok (lud, is_open) =>
            p1 <- chk_u 128 (price / divisor) ;;
            p2 <- chk_u 128 (bid / divisor) ;;
            p3 <- chk_u 128 (ask / divisor) ;;
            let flags := (if is_open then 1 else 0) + (match lud with Some _ => 6 | None => 0 end) in
            Some (Ok (mkPfp (18 - k) flags (canonical_status (r_ext r))
                            (match lud with Some s => s | None => 0 end) (r_obs r) p1 p2 p3))
        end
  end end end.

(* decode (field mapping) followed by the conversion: Err 100 + e = decode error e *)
Definition fields_to_pfp (f : fields) : option (res pfp) :=
  match report_of f with
  | Err e => Some (Err (100 + e))
  | Ok r => from_report r
  end.
