(* C28 — proofs about decode_full_report and from_chainlink_report. *)
From Coq Require Import Lia ZArith List.
From GV Require Import lib.Base lib.DivLemmas C01.Model C01.Proofs C26.Model C26.Proofs C28.Model.
Open Scope Z_scope.
Ltac Zify.zify_post_hook ::= Z.div_mod_to_equations.


Definition bytes (l : list Z) : Prop := Forall (fun x => 0 <= x < 256) l.

(* ---------- slices ---------- *)
Lemma len_nonneg l : 0 <= len l. Proof. unfold len. lia. Qed.

Lemma slice_some l a b : 0 <= a <= b -> b <= len l ->
  slice l a b = Some (firstn (Z.to_nat (b - a)) (skipn (Z.to_nat a) l)).
Proof.
  intros H1 H2. unfold slice. replace (a <? 0) with false by lia. replace (b <? a) with false by lia.
  replace (len l <? b) with false by lia. reflexivity.
Qed.

Lemma slice_len l a b s : slice l a b = Some s -> len s = b - a /\ 0 <= a <= b /\ b <= len l.
Proof.
  unfold slice. destruct (a <? 0) eqn:E1; [discriminate|]. destruct (b <? a) eqn:E2; [discriminate|].
  destruct (len l <? b) eqn:E3; [discriminate|]. cbn [orb]. intros X; injection X as <-.
  unfold len in *. rewrite firstn_length, skipn_length. lia.
Qed.

Lemma in_firstn {A} (x : A) n l : In x (firstn n l) -> In x l.
Proof.
  revert n. induction l as [|y r IH]; intros n; destruct n; cbn [firstn In]; try tauto.
  intros [H|H]; [left; exact H|right; eapply IH; exact H].
Qed.
Lemma in_skipn {A} (x : A) n l : In x (skipn n l) -> In x l.
Proof.
  revert n. induction l as [|y r IH]; intros n; destruct n; cbn [skipn In]; try tauto.
  intros H. right. eapply IH. exact H.
Qed.

Lemma slice_bytes l a b s : bytes l -> slice l a b = Some s -> bytes s.
Proof.
  unfold slice. destruct (_ || _); [discriminate|]. intros H X; injection X as <-.
  unfold bytes in *. apply Forall_forall. intros x Hx. apply in_firstn in Hx. apply in_skipn in Hx.
  rewrite Forall_forall in H. auto.
Qed.

(* big-endian value of a byte string *)
Lemma be_bound_gen l : bytes l -> forall acc, 0 <= acc ->
  0 <= fold_left (fun a x => a * 256 + x) l acc < (acc + 1) * 256 ^ len l.
Proof.
  induction 1 as [|x r Hx _ IH]; intros acc Ha; cbn [fold_left].
  - unfold len. cbn. lia.
  - specialize (IH (acc * 256 + x) ltac:(lia)).
    replace (len (x :: r)) with (1 + len r) by (unfold len; cbn [length]; lia).
    rewrite Z.pow_add_r by (pose proof (len_nonneg r); lia). change (256 ^ 1) with 256.
    pose proof (len_nonneg r). assert (0 < 256 ^ len r) by (apply Z.pow_pos_nonneg; lia). nia.
Qed.
Lemma be_bound l : bytes l -> 0 <= be l < 256 ^ len l.
Proof. intros H. pose proof (be_bound_gen l H 0 ltac:(lia)). unfold be. lia. Qed.

Lemma be8_u64 l : bytes l -> len l = 8 -> 0 <= be l < 2 ^ 64.
Proof. intros H L. pose proof (be_bound l H). rewrite L in *. change (256 ^ 8) with (2 ^ 64) in *. lia. Qed.

(* leading zero bytes do not change the value *)
Lemma be_zeros z l : Forall (fun x => x = 0) z -> be (z ++ l) = be l.
Proof.
  unfold be. rewrite fold_left_app. intros H. f_equal.
  induction H as [|x r -> _ IH]; cbn [fold_left]; [reflexivity|exact IH].
Qed.

(* ---------- decode_full_report ---------- *)
Definition off_of (p : list Z) : Z := be (firstn 8 (skipn 120 p)).
Definition len_of (p : list Z) (off : Z) : Z := be (firstn 8 (skipn (Z.to_nat (off + 24)) p)).

Lemma skipn_add {A} a b (l : list A) : skipn a (skipn b l) = skipn (b + a) l.
Proof. revert l. induction b as [|b IH]; intros l; [reflexivity|]. destruct l; cbn [skipn plus]; [destruct a; reflexivity|apply IH]. Qed.

Lemma firstn_skipn_comp (l : list Z) a b c :
  firstn c (skipn b (firstn (b + c) (skipn a l))) = firstn c (skipn (a + b) l).
Proof.
  rewrite skipn_firstn_comm. replace (b + c - b)%nat with c by lia.
  rewrite firstn_firstn. rewrite Nat.min_id. rewrite skipn_add. reflexivity.
Qed.

Theorem decode_full_report_spec p : bytes p -> len p < 2 ^ 63 ->
  decode_full_report p =
    if len p <? 128 then Some (Err 1)
    else let off := off_of p in
         if (off <? 128) || (len p <? off + 32) then Some (Err 2)
         else let n := len_of p off in
              if len p <? off + 32 + n then Some (Err 2)
              else Some (Ok (firstn 96 p, off + 32, n, firstn (Z.to_nat n) (skipn (Z.to_nat (off + 32)) p))).
Proof.
  intros HB HL. unfold decode_full_report. destruct (len p <? 128) eqn:E0; [reflexivity|].
  rewrite (slice_some p 0 32), (slice_some p 32 64), (slice_some p 64 96), (slice_some p 96 128) by lia.
  cbn [obind].
  set (w := firstn (Z.to_nat (128 - 96)) (skipn (Z.to_nat 96) p)).
  assert (Lw : len w = 32).
  { subst w. unfold len in *. rewrite firstn_length, skipn_length. lia. }
  rewrite (slice_some w 24 32) by lia. cbn [obind].
  assert (Eoff : be (firstn (Z.to_nat (32 - 24)) (skipn (Z.to_nat 24) w)) = off_of p).
  { unfold off_of. subst w. f_equal. change (Z.to_nat (32 - 24)) with 8%nat. change (Z.to_nat 24) with 24%nat.
    change (Z.to_nat (128 - 96)) with (24 + 8)%nat. change (Z.to_nat 96) with 96%nat.
    rewrite firstn_skipn_comp. reflexivity. }
  rewrite Eoff. cbv zeta.
  assert (Boff : 0 <= off_of p < 2 ^ 64).
  { unfold off_of. apply be8_u64.
    - eapply (slice_bytes p 120 128); [exact HB|]. rewrite slice_some by lia. reflexivity.
    - unfold len in *. rewrite firstn_length, skipn_length. lia. }
  set (off := off_of p) in *.
  destruct (off <? 128) eqn:E1; [reflexivity|]. cbn [orb].
  unfold usize_add.
  destruct (chk_u 64 (off + 32)) as [le|] eqn:C1.
  - apply chk_u_some in C1. destruct C1 as [C1 ->].
    destruct (len p <? off + 32) eqn:E2; [reflexivity|].
    rewrite (slice_some p off (off + 32)) by lia. cbn [obind].
    set (lw := firstn (Z.to_nat (off + 32 - off)) (skipn (Z.to_nat off) p)).
    assert (Llw : len lw = 32).
    { subst lw. unfold len in *. rewrite firstn_length, skipn_length. lia. }
    rewrite (slice_some lw 24 32) by lia. cbn [obind].
    assert (Elen : be (firstn (Z.to_nat (32 - 24)) (skipn (Z.to_nat 24) lw)) = len_of p off).
    { unfold len_of. subst lw. f_equal. change (Z.to_nat (32 - 24)) with 8%nat. change (Z.to_nat 24) with 24%nat.
      replace (Z.to_nat (off + 32 - off)) with (24 + 8)%nat by lia.
      rewrite firstn_skipn_comp. f_equal. f_equal. lia. }
    rewrite Elen.
    assert (Bn : 0 <= len_of p off < 2 ^ 64).
    { unfold len_of. apply be8_u64.
      - eapply (slice_bytes p (off + 24) (off + 32)); [exact HB|]. rewrite slice_some by lia.
        replace (Z.to_nat (off + 32 - (off + 24))) with 8%nat by lia. reflexivity.
      - unfold len in *. rewrite firstn_length, skipn_length. lia. }
    set (n := len_of p off) in *.
    destruct (chk_u 64 (off + 32 + n)) as [be_|] eqn:C2.
    + apply chk_u_some in C2. destruct C2 as [C2 ->].
      destruct (len p <? off + 32 + n) eqn:E3; [reflexivity|].
      rewrite (slice_some p (off + 32) (off + 32 + n)) by lia. cbn [obind].
      replace (off + 32 + n - (off + 32)) with n by lia.
      change (Z.to_nat 0) with 0%nat. change (Z.to_nat (32 - 0)) with 32%nat. change (Z.to_nat 32) with 32%nat.
      change (Z.to_nat (64 - 32)) with 32%nat. change (Z.to_nat 64) with 64%nat. change (Z.to_nat (96 - 64)) with 32%nat.
      cbn [skipn]. f_equal. f_equal. f_equal. f_equal. f_equal.
      (* context words *)
      rewrite <- (firstn_skipn 32 (firstn 96 p)) at 1.
      rewrite firstn_firstn. change (Nat.min 32 96) with 32%nat. f_equal.
      rewrite skipn_firstn_comm. change (96 - 32)%nat with 64%nat.
      rewrite <- (firstn_skipn 32 (firstn 64 (skipn 32 p))) at 1.
      rewrite firstn_firstn. change (Nat.min 32 64) with 32%nat. f_equal.
      rewrite skipn_firstn_comm. change (64 - 32)%nat with 32%nat. rewrite skipn_add. reflexivity.
    + apply chk_u_none in C2. replace (len p <? off + 32 + n) with true; [reflexivity|].
      symmetry. apply Z.ltb_lt. change (2 ^ 63) with 9223372036854775808 in HL. change (2 ^ 64) with 18446744073709551616 in *. lia.
  - apply chk_u_none in C1. replace (len p <? off + 32) with true; [reflexivity|].
    symmetry. apply Z.ltb_lt. change (2 ^ 63) with 9223372036854775808 in HL. change (2 ^ 64) with 18446744073709551616 in *. lia.
Qed.


(* no slice expression of decode_full_report can go out of range *)
Theorem full_report_total p : bytes p -> len p < 2 ^ 63 -> decode_full_report p <> None.
Proof.
  intros HB HL. rewrite decode_full_report_spec by assumption.
  destruct (len p <? 128); [discriminate|]. cbv zeta.
  destruct (_ || _); [discriminate|]. destruct (_ <? _); discriminate.
Qed.

(* full 32-byte ABI words *)
Definition word (p : list Z) (i : Z) : Z := be (firstn 32 (skipn (Z.to_nat i) p)).
Definition high_zero (p : list Z) (i : Z) : Prop := Forall (fun x => x = 0) (firstn 24 (skipn (Z.to_nat i) p)).

Lemma word_low p i : 0 <= i -> high_zero p i -> word p i = be (firstn 8 (skipn (Z.to_nat (i + 24)) p)).
Proof.
  intros Hi H. unfold word, high_zero in *.
  rewrite <- (firstn_skipn 24 (firstn 32 (skipn (Z.to_nat i) p))).
  rewrite firstn_firstn. change (Nat.min 24 32) with 24%nat. rewrite be_zeros by exact H.
  rewrite skipn_firstn_comm. change (32 - 24)%nat with 8%nat. rewrite skipn_add.
  f_equal. f_equal. f_equal. lia.
Qed.

(* success: the blob is exactly the slice described by the (low 8 bytes of the) offset and length words *)
Theorem blob_is_slice p ctx st n blob : bytes p -> len p < 2 ^ 63 ->
  decode_full_report p = Some (Ok (ctx, st, n, blob)) ->
  let off := off_of p in
  128 <= len p /\ ctx = firstn 96 p /\ 128 <= off /\ st = off + 32 /\ n = len_of p off /\ 0 <= n /\
  st + n <= len p /\ blob = firstn (Z.to_nat n) (skipn (Z.to_nat st) p) /\ len blob = n.
Proof.
  intros HB HL. rewrite decode_full_report_spec by assumption. cbv zeta.
  destruct (len p <? 128) eqn:E0; [discriminate|].
  destruct ((off_of p <? 128) || (len p <? off_of p + 32)) eqn:E1; [discriminate|].
  destruct (len p <? off_of p + 32 + len_of p (off_of p)) eqn:E2; [discriminate|].
  intros X; injection X as <- <- <- <-. apply orb_false_iff in E1. destruct E1 as [E1 E1'].
  assert (Bn : 0 <= len_of p (off_of p)).
  { unfold len_of. apply be_bound. eapply (slice_bytes p (off_of p + 24) (off_of p + 32)); [exact HB|].
    rewrite slice_some by lia. replace (Z.to_nat (off_of p + 32 - (off_of p + 24))) with 8%nat by lia. reflexivity. }
  repeat split; try lia.
  unfold len in *. rewrite firstn_length, skipn_length. lia.
Qed.

(* ABI-conformant payload (high 24 bytes of both words are zero): the blob is the ABI-described one *)
Theorem blob_is_abi_slice p ctx st n blob : bytes p -> len p < 2 ^ 63 ->
  decode_full_report p = Some (Ok (ctx, st, n, blob)) ->
  high_zero p 96 -> high_zero p (st - 32) ->
  st = word p 96 + 32 /\ n = word p (word p 96) /\ blob = firstn (Z.to_nat n) (skipn (Z.to_nat st) p).
Proof.
  intros HB HL H Z1 Z2. pose proof (blob_is_slice _ _ _ _ _ HB HL H) as K. cbv zeta in K.
  destruct K as (_ & _ & K1 & K2 & K3 & _ & _ & K4 & _).
  assert (W1 : word p 96 = off_of p) by (rewrite word_low by (try lia; assumption); reflexivity).
  replace (st - 32) with (off_of p) in Z2 by lia.
  assert (W2 : word p (off_of p) = len_of p (off_of p)) by (rewrite word_low by (try lia; assumption); reflexivity).
  rewrite W1, W2. repeat split; try lia; assumption.
Qed.

(* failures, exactly *)
Theorem full_report_errors p e : bytes p -> len p < 2 ^ 63 ->
  decode_full_report p = Some (Err e) <->
  (e = 1 /\ len p < 128) \/
  (e = 2 /\ 128 <= len p /\
     (off_of p < 128 \/ len p < off_of p + 32 \/ len p < off_of p + 32 + len_of p (off_of p))).
Proof.
  intros HB HL. rewrite decode_full_report_spec by assumption. cbv zeta.
  destruct (len p <? 128) eqn:E0.
  - split; [intros X; injection X as <-; left; lia|]. intros [[-> _]|[_ [? _]]]; [reflexivity|lia].
  - destruct ((off_of p <? 128) || (len p <? off_of p + 32)) eqn:E1.
    + apply orb_true_iff in E1. split; [intros X; injection X as <-; right; lia|].
      intros [[_ ?]|[-> _]]; [lia|reflexivity].
    + apply orb_false_iff in E1. destruct (len p <? off_of p + 32 + len_of p (off_of p)) eqn:E2.
      * split; [intros X; injection X as <-; right; lia|]. intros [[_ ?]|[-> _]]; [lia|reflexivity].
      * split; [discriminate|]. intros [[_ ?]|[_ [_ ?]]]; lia.
Qed.

(* the literal "ABI-described slice" fails when a high byte is set: the offset word encodes 2^248 + 128 *)
Lemma high_bytes_ignored_witness :
  let p := repeat 7 96 ++ (1 :: repeat 0 30 ++ [128]) ++ (repeat 0 31 ++ [4]) ++ [1; 2; 3; 4] in
  decode_full_report p = Some (Ok (repeat 7 96, 160, 4, [1; 2; 3; 4])) /\ word p 96 = 2 ^ 248 + 128.
Proof. vm_compute. split; reflexivity. Qed.


(* ranges of a decoded report: magnitudes are U192, observations_timestamp u32, last update u64 *)
Definition report_range (r : report) : Prop :=
  0 <= snd (r_price r) < 2 ^ 192 /\ 0 <= snd (r_bid r) < 2 ^ 192 /\ 0 <= snd (r_ask r) < 2 ^ 192 /\
  0 <= r_obs r < 2 ^ 32 /\ (forall l, r_last r = Some l -> 0 <= l < 2 ^ 64).

(* the last-update part never fails with Overflow, never reports "closed", and is the rounded-up difference *)
Definition lud_spec (r : report) : res (option Z) :=
  match r_last r with
  | None => Ok None
  | Some lts =>
      let obs_ns := r_obs r * NANOS in
      if lts <=? obs_ns then Ok (Some (div_ceil (obs_ns - lts) NANOS))
      else if NANOS <=? lts - obs_ns then Err 8 else Ok (Some 0)
  end.

Lemma two32' : 2 ^ 32 = 4294967296. Proof. reflexivity. Qed.
Lemma two64' : 2 ^ 64 = 18446744073709551616. Proof. reflexivity. Qed.

Theorem from_report_spec r : report_range r ->
  from_report r =
    if negb (fst (r_price r)) then Some (Err 1)
    else if negb (fst (r_bid r)) then Some (Err 2)
    else if negb (fst (r_ask r)) then Some (Err 3)
    else let price := snd (r_price r) in let bid := snd (r_bid r) in let ask := snd (r_ask r) in
      if ask <? price then Some (Err 4)
      else if price <? bid then Some (Err 5)
      else let k := find_divisor_decimals ask in
        if 18 <? k then Some (Err 6)
        else match lud_spec r with
             | Err x => Some (Err x)
             | Ok lud =>
                 Some (Ok (mkPfp (18 - k) (1 + match lud with Some _ => 6 | None => 0 end) (canonical_status (r_ext r))
                                 (match lud with Some s => s | None => 0 end) (r_obs r)
                                 (price / 10 ^ k) (bid / 10 ^ k) (ask / 10 ^ k)))
             end.
Proof.
  intros (R1 & R2 & R3 & R4 & R5). unfold from_report, non_negative.
  destruct (r_price r) as [s1 price]. destruct (r_bid r) as [s2 bid]. destruct (r_ask r) as [s3 ask]. cbn [fst snd] in *.
  destruct s1; cbn [negb]; [|reflexivity]. destruct s2; cbn [negb]; [|reflexivity]. destruct s3; cbn [negb]; [|reflexivity].
  destruct (ask <? price) eqn:E1; [reflexivity|]. destruct (price <? bid) eqn:E2; [reflexivity|]. cbv zeta.
  destruct (18 <? find_divisor_decimals ask) eqn:E3; [reflexivity|].
  pose proof (find_divisor_decimals_spec ask ltac:(lia)) as (K1 & _). cbv zeta in K1.
  pose proof (find_divisor_decimals_fits ask ltac:(lia)) as F.
  set (k := find_divisor_decimals ask) in *. pose proof (pow10_pos' k ltac:(lia)) as PK.
  (* last update *)
  assert (EL : (match r_last r with
               | None => Ok (None, true)
               | Some lts =>
                   match umul 64 (r_obs r) NANOS with
                   | None => Err 7
                   | Some obs_ns =>
                       match (if lts <=? obs_ns then Ok (obs_ns - lts)
                              else if NANOS <=? lts - obs_ns then Err 8 else Ok 0) with
                       | Err x => Err x
                       | Ok diff =>
                           if div_ceil diff NANOS <? 2 ^ 32 then Ok (Some (div_ceil diff NANOS), true) else Ok (Some (2 ^ 32 - 1), false)
                       end
                   end
               end) = match lud_spec r with Err x => Err x | Ok l => Ok (l, true) end).
  { unfold lud_spec. destruct (r_last r) as [lts|]; [|reflexivity]. specialize (R5 lts eq_refl).
    unfold umul, NANOS in *. rewrite two32', two64' in *.
    replace (chk_u 64 (r_obs r * 1000000000)) with (Some (r_obs r * 1000000000)) by (symmetry; apply chk_u_some; rewrite two64'; lia).
    cbv zeta. destruct (lts <=? r_obs r * 1000000000) eqn:L1.
    - pose proof (div_ceil_spec (r_obs r * 1000000000 - lts) 1000000000 ltac:(lia)).
      replace (div_ceil (r_obs r * 1000000000 - lts) 1000000000 <? 4294967296) with true by (symmetry; apply Z.ltb_lt; lia).
      reflexivity.
    - destruct (1000000000 <=? lts - r_obs r * 1000000000); [reflexivity|].
      change (div_ceil 0 1000000000) with 0. reflexivity. }
  rewrite EL. destruct (lud_spec r) as [lud|x]; [|reflexivity].
  assert (0 <= bid / 10 ^ k <= price / 10 ^ k /\ price / 10 ^ k <= ask / 10 ^ k).
  { split; [split; [apply div_nonneg; lia|apply Z.div_le_mono; lia]|apply Z.div_le_mono; lia]. }
  replace (chk_u 128 (price / 10 ^ k)) with (Some (price / 10 ^ k)) by (symmetry; apply chk_u_some; lia).
  replace (chk_u 128 (bid / 10 ^ k)) with (Some (bid / 10 ^ k)) by (symmetry; apply chk_u_some; lia).
  replace (chk_u 128 (ask / 10 ^ k)) with (Some (ask / 10 ^ k)) by (symmetry; apply chk_u_some; lia).
  cbn [obind]. reflexivity.
Qed.

(* never panics *)
Theorem conversion_total r : report_range r -> from_report r <> None.
Proof.
  intros H. rewrite from_report_spec by assumption. cbv zeta.
  repeat match goal with |- context [if ?c then _ else _] => destruct c; try discriminate end.
  destruct (lud_spec r); discriminate.
Qed.

(* success: non-negative, ordered inputs; one power of ten; order preserved; u128; timestamp; flags *)
Theorem conversion_ok r o : report_range r -> from_report r = Some (Ok o) ->
  let price := snd (r_price r) in let bid := snd (r_bid r) in let ask := snd (r_ask r) in
  let k := find_divisor_decimals ask in
  fst (r_price r) = true /\ fst (r_bid r) = true /\ fst (r_ask r) = true /\
  bid <= price <= ask /\
  p_dec o = 18 - k /\ 0 <= k <= 18 /\
  p_price o = price / 10 ^ k /\ p_min o = bid / 10 ^ k /\ p_max o = ask / 10 ^ k /\
  0 <= p_min o <= p_price o /\ p_price o <= p_max o /\ p_max o < 2 ^ 128 /\
  p_ts o = r_obs r /\ p_status o = canonical_status (r_ext r) /\
  Z.odd (p_flags o) = true /\                                  (* the Open flag is always set *)
  (r_last r = None -> p_flags o = 1 /\ p_lud o = 0) /\
  (forall l, r_last r = Some l -> p_flags o = 7 /\ l < r_obs r * NANOS + NANOS /\
      0 <= p_lud o < 2 ^ 32 /\
      (l <= r_obs r * NANOS -> (p_lud o - 1) * NANOS < r_obs r * NANOS - l <= p_lud o * NANOS) /\
      (r_obs r * NANOS < l -> p_lud o = 0)).
Proof.
  intros HR. pose proof HR as (R1 & R2 & R3 & R4 & R5). rewrite from_report_spec by assumption. cbv zeta.
  destruct (fst (r_price r)); cbn [negb]; [|discriminate]. destruct (fst (r_bid r)); cbn [negb]; [|discriminate].
  destruct (fst (r_ask r)); cbn [negb]; [|discriminate].
  destruct (snd (r_ask r) <? snd (r_price r)) eqn:E1; [discriminate|].
  destruct (snd (r_price r) <? snd (r_bid r)) eqn:E2; [discriminate|].
  destruct (18 <? find_divisor_decimals (snd (r_ask r))) eqn:E3; [discriminate|].
  pose proof (find_divisor_decimals_spec (snd (r_ask r)) ltac:(lia)) as (K1 & _). cbv zeta in K1.
  pose proof (find_divisor_decimals_fits (snd (r_ask r)) ltac:(lia)) as F.
  set (k := find_divisor_decimals (snd (r_ask r))) in *. pose proof (pow10_pos' k ltac:(lia)) as PK.
  destruct (lud_spec r) as [lud|x] eqn:L; [|discriminate].
  intros X; injection X as <-. change (p_dec {| p_dec := 18 - k; p_flags := _; p_status := _; p_lud := _; p_ts := _; p_price := _; p_min := _; p_max := _ |}) with (18 - k).
  clearbody k. cbn [p_flags p_status p_lud p_ts p_price p_min p_max].
  assert (0 <= snd (r_bid r) / 10 ^ k <= snd (r_price r) / 10 ^ k /\ snd (r_price r) / 10 ^ k <= snd (r_ask r) / 10 ^ k).
  { split; [split; [apply div_nonneg; lia|apply Z.div_le_mono; lia]|apply Z.div_le_mono; lia]. }
  repeat (split; [first [lia | reflexivity]|]).
  split; [destruct lud; reflexivity|].
  unfold lud_spec in L. split.
  - intros E. rewrite E in L. injection L as <-. split; reflexivity.
  - intros l E. rewrite E in L. specialize (R5 l E). cbv zeta in L. unfold NANOS in *. rewrite two32', two64' in *.
    destruct (l <=? r_obs r * 1000000000) eqn:L1.
    + injection L as <-. pose proof (div_ceil_spec (r_obs r * 1000000000 - l) 1000000000 ltac:(lia)).
      repeat split; try lia.
    + destruct (1000000000 <=? l - r_obs r * 1000000000) eqn:L2; [discriminate|]. injection L as <-.
      repeat split; lia.
Qed.

(* rejects negative or misordered bid / price / ask *)
Theorem rejects_negative_or_misordered r : report_range r ->
  (fst (r_price r) = false \/ fst (r_bid r) = false \/ fst (r_ask r) = false \/
   snd (r_ask r) < snd (r_price r) \/ snd (r_price r) < snd (r_bid r)) ->
  exists e, from_report r = Some (Err e) /\ 1 <= e <= 5.
Proof.
  intros HR H. rewrite from_report_spec by assumption. cbv zeta.
  destruct (fst (r_price r)); cbn [negb]; [|exists 1; split; [reflexivity|lia]].
  destruct (fst (r_bid r)); cbn [negb]; [|exists 2; split; [reflexivity|lia]].
  destruct (fst (r_ask r)); cbn [negb]; [|exists 3; split; [reflexivity|lia]].
  destruct (snd (r_ask r) <? snd (r_price r)) eqn:E1; [exists 4; split; [reflexivity|lia]|].
  destruct (snd (r_price r) <? snd (r_bid r)) eqn:E2; [exists 5; split; [reflexivity|lia]|].
  exfalso. destruct H as [H|[H|[H|[H|H]]]]; try discriminate; lia.
Qed.

(* field mapping of decode: bid = ask = price for the single-price schemas *)
Theorem report_of_single f r : (f_version f = 2 \/ f_version f = 7 \/ f_version f = 8) -> report_of f = Ok r ->
  r_bid r = r_price r /\ r_ask r = r_price r /\ snd (r_price r) = Z.abs (f_price f) /\ fst (r_price r) = negb (f_price f <? 0).
Proof.
  intros V. unfold report_of.
  assert (TS : forall x s, to_signed_mag x = Ok s -> snd s = Z.abs x /\ fst s = negb (x <? 0)).
  { intros x s. unfold to_signed_mag. destruct (_ <=? _); [discriminate|]. intros X; injection X as <-. split; reflexivity. }
  destruct V as [V|[V|V]]; rewrite V; cbn [Z.eqb Pos.eqb orb].
  - destruct (to_signed_mag (f_price f)) as [s|] eqn:E; cbn [rbind]; [|discriminate]. intros X; injection X as <-.
    cbn. apply TS in E. tauto.
  - destruct (to_signed_mag (f_price f)) as [s|] eqn:E; cbn [rbind]; [|discriminate]. intros X; injection X as <-.
    cbn. apply TS in E. tauto.
  - destruct (to_signed_mag (f_price f)) as [s|] eqn:E; cbn [rbind]; [|discriminate].
    destruct (if f_status f =? 0 then _ else _) as [e|]; cbn [rbind]; [|discriminate]. intros X; injection X as <-.
    cbn. apply TS in E. tauto.
Qed.

