(* C28 — correspondence and oracle predicates for harness/src/bin/c28.rs. *)
From GV Require Import lib.Base.
From GV Require Export C28.Model.
Open Scope Z_scope.

Inductive case :=
(* decode_full_report(p): None = panic; Ok (three context words concatenated, start index of the returned
   blob inside p (pointer difference), its length); Err 1 DataTooShort / 2 InvalidLength / 3 ParseError *)
| FullReport (p : list Z) (r : option (res (list Z * Z * Z)))
(* panic-freedom probes of the unmodelled third-party decoders on byte strings:
   kind 1 = report::decode, 2 = decode_compressed_full_report, 3 = decompress + decode_full_report + decode +
   from_chainlink_report; outcome 0 = Ok, 1 = Err, 2 = panic *)
| NoPanic (kind : Z) (p : list Z) (outcome : Z)
(* ReportDataV{2,3,7,8,11}{fields}.abi_encode() -> report::decode -> PriceFeedPrice::from_chainlink_report:
   None = panic; Err as in Model.from_report, 100 + e for decode errors *)
| FromFields (f : fields) (r : option (res pfp)).

Fixpoint leqb (a b : list Z) : bool :=
  match a, b with
  | [], [] => true
  | x :: r, y :: s => (x =? y) && leqb r s
  | _, _ => false
  end.
Definition pfp_eqb (a b : pfp) : bool :=
  (p_dec a =? p_dec b) && (p_flags a =? p_flags b) && (p_status a =? p_status b) && (p_lud a =? p_lud b)
  && (p_ts a =? p_ts b) && (p_price a =? p_price b) && (p_min a =? p_min b) && (p_max a =? p_max b).

Definition corr_b (c : case) : bool :=
  match c with
  | FullReport p r =>
      match decode_full_report p, r with
      | None, None => true
      | Some (Err e), Some (Err e') => e =? e'
      | Some (Ok (ctx, st, n, blob)), Some (Ok (ctx', st', n')) =>
          leqb ctx ctx' && (st =? st') && (n =? n') && (len blob =? n)
      | _, _ => false
      end
  | NoPanic _ _ _ => true
  | FromFields f r =>
      match fields_to_pfp f, r with
      | None, None => true
      | Some (Err e), Some (Err e') => e =? e'
      | Some (Ok a), Some (Ok b) => pfp_eqb a b
      | _, _ => false
      end
  end.

(* ---------- the property on the outputs ---------- *)
(* a full 32-byte big-endian ABI word starting at index i (0 if out of range) *)
Definition word_at (p : list Z) (i : Z) : Z :=
  if (i <? 0) || (Z.of_nat (length p) <? i) then 0     (* guard: never build a huge unary nat *)
  else fold_left (fun acc x => acc * 256 + x) (firstn 32 (skipn (Z.to_nat i) p)) 0.

Definition oracle_b (c : case) : bool :=
  match c with
  | FullReport p r =>
      let n := Z.of_nat (length p) in
      match r with
      | None => false
      | Some (Err 1) => n <? 128
      | Some (Err 2) =>
          (* the ABI-described blob does not exist inside the payload *)
          (128 <=? n) &&
          (let off := word_at p 96 in
           (off <? 128) || (n <? off + 32) || (n <? off + 32 + word_at p off))
      | Some (Err _) => false
      | Some (Ok (ctx, st, ln)) =>
          (* context = first three words; blob = exactly the ABI slice: starts right after the length word
             found at the offset stored in word 3, has that length, lies inside the payload *)
          (128 <=? n) && leqb ctx (firstn 96 p) &&
          (let off := word_at p 96 in
           (128 <=? off) && (st =? off + 32) && (ln =? word_at p off) && (st + ln <=? n))
      end
  | NoPanic _ _ o => negb (o =? 2)
  | FromFields f r =>
      let v := f_version f in
      let three := (v =? 3) || (v =? 11) in
      let price := f_price f in
      let bid := if three then f_bid f else f_price f in
      let ask := if three then f_ask f else f_price f in
      let timed := (v =? 8) || (v =? 11) in
      let supported := (v =? 2) || (v =? 3) || (v =? 7) || (v =? 8) || (v =? 11) in
      let status_ok := if v =? 8 then (0 <=? f_status f) && (f_status f <=? 2)
                       else if v =? 11 then (0 <=? f_status f) && (f_status f <=? 5) else true in
      let obs_ns := f_obs f * 1000000000 in
      match r with
      | None => false
      | Some (Ok o) =>
          let k := 18 - p_dec o in
          supported && status_ok
          (* rejects negative or misordered *)
          && (0 <=? bid) && (bid <=? price) && (price <=? ask)
          (* one power of ten for all three, floor, fits u128, order preserved *)
          && (0 <=? k) && (k <=? 18)
          && (p_price o =? price / 10 ^ k) && (p_min o =? bid / 10 ^ k) && (p_max o =? ask / 10 ^ k)
          && (p_max o <? 2 ^ 128) && (p_min o <=? p_price o) && (p_price o <=? p_max o)
          (* no more digits dropped than needed (see C26 for the u128::MAX edge) *)
          && ((k =? 0) || ((2 ^ 128 - 1) * 10 ^ (k - 1) <? ask))
          && (p_ts o =? f_obs f)
          (* market status byte *)
          && (p_status o =? (if v =? 8 then (if f_status f =? 0 then 1 else if f_status f =? 1 then 6 else 3)
                             else if v =? 11 then f_status f + 1 else 0))
          (* last update difference in whole seconds, rounded up; tracking flags *)
          && (if timed then (p_flags o =? 7) && (f_last f <? obs_ns + 1000000000)
                            && (p_lud o =? (if f_last f <=? obs_ns then (obs_ns - f_last f + 999999999) / 1000000000 else 0))
              else (p_flags o =? 1) && (p_lud o =? 0))
      | Some (Err 1) => price <? 0
      | Some (Err 2) => (0 <=? price) && (bid <? 0)
      | Some (Err 3) => (0 <=? price) && (0 <=? bid) && (ask <? 0)
      | Some (Err 4) => (0 <=? price) && (0 <=? bid) && (0 <=? ask) && (ask <? price)
      | Some (Err 5) => (0 <=? price) && (0 <=? bid) && (price <=? ask) && (price <? bid)
      | Some (Err 6) => (0 <=? bid) && (bid <=? price) && (price <=? ask) && ((2 ^ 128 - 1) * 10 ^ 18 <? ask)
      | Some (Err 8) => timed && (obs_ns + 1000000000 <=? f_last f)
      | Some (Err 101) => negb status_ok || (2 ^ 192 <=? Z.abs price) || (2 ^ 192 <=? Z.abs bid) || (2 ^ 192 <=? Z.abs ask)
      | Some (Err 103) => negb supported
      | Some (Err _) => false
      end
  end.

(* Known finding class 1 (AbiWordHighBytesIgnored): the offset word or the length word of the payload
   has non-zero high 24 bytes; the code reads only the low 8 bytes and returns the slice those describe. *)
Definition low8 (p : list Z) (i : Z) : Z :=
  if (i <? 0) || (Z.of_nat (length p) <? i) then 0 else
  fold_left (fun acc x => acc * 256 + x) (firstn 8 (skipn (Z.to_nat (i + 24)) p)) 0.
Definition known_b (c : case) : Z :=
  match c with
  | FullReport p (Some (Ok (ctx, st, ln))) =>
      let n := Z.of_nat (length p) in
      let off := low8 p 96 in
      if (128 <=? n) && leqb ctx (firstn 96 p) && (128 <=? off) && (st =? off + 32) && (ln =? low8 p off) && (st + ln <=? n)
         && (negb (word_at p 96 =? off) || negb (word_at p off =? ln))
      then 1 else 0
  | _ => 0
  end.
