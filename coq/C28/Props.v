(* C28 — property theorems only.  [bytes p]: every entry of the payload is in 0..255;
   [len p < 2^63]: Rust slices are at most isize::MAX long; [report_range]: U192 magnitudes, u32 / u64 stamps. *)
From GV Require Import lib.Base C26.Model C28.Model C28.Proofs.
Open Scope Z_scope.

(* the whole function as one equation (off_of / len_of = low 8 bytes, big endian, of the offset / length word) *)
Theorem c28_decode_full_report_spec : forall p, bytes p -> len p < 2 ^ 63 ->
  decode_full_report p =
    if len p <? 128 then Some (Err 1)
    else let off := off_of p in
         if (off <? 128) || (len p <? off + 32) then Some (Err 2)
         else let n := len_of p off in
              if len p <? off + 32 + n then Some (Err 2)
              else Some (Ok (firstn 96 p, off + 32, n, firstn (Z.to_nat n) (skipn (Z.to_nat (off + 32)) p))).
Proof. exact decode_full_report_spec. Qed.

(* every slice index is in range: decode_full_report never panics, on any byte string *)
Theorem c28_full_report_total : forall p, bytes p -> len p < 2 ^ 63 -> decode_full_report p <> None.
Proof. exact full_report_total. Qed.

Theorem c28_blob_is_slice : forall p ctx st n blob, bytes p -> len p < 2 ^ 63 ->
  decode_full_report p = Some (Ok (ctx, st, n, blob)) ->
  let off := off_of p in
  128 <= len p /\ ctx = firstn 96 p /\ 128 <= off /\ st = off + 32 /\ n = len_of p off /\ 0 <= n /\
  st + n <= len p /\ blob = firstn (Z.to_nat n) (skipn (Z.to_nat st) p) /\ len blob = n.
Proof. exact blob_is_slice. Qed.

(* for ABI-conformant words (high 24 bytes zero) the blob is exactly the ABI-described slice;
   complement statement of known class 1 *)
Theorem c28_blob_is_abi_slice_partial : forall p ctx st n blob, bytes p -> len p < 2 ^ 63 ->
  decode_full_report p = Some (Ok (ctx, st, n, blob)) ->
  high_zero p 96 -> high_zero p (st - 32) ->
  st = word p 96 + 32 /\ n = word p (word p 96) /\ blob = firstn (Z.to_nat n) (skipn (Z.to_nat st) p).
Proof. exact blob_is_abi_slice. Qed.

Theorem c28_high_bytes_ignored_refuted :
  let p := repeat 7 96 ++ (1 :: repeat 0 30 ++ [128]) ++ (repeat 0 31 ++ [4]) ++ [1; 2; 3; 4] in
  decode_full_report p = Some (Ok (repeat 7 96, 160, 4, [1; 2; 3; 4])) /\ word p 96 = 2 ^ 248 + 128.
Proof. exact high_bytes_ignored_witness. Qed.

Theorem c28_full_report_errors : forall p e, bytes p -> len p < 2 ^ 63 ->
  decode_full_report p = Some (Err e) <->
  (e = 1 /\ len p < 128) \/
  (e = 2 /\ 128 <= len p /\
     (off_of p < 128 \/ len p < off_of p + 32 \/ len p < off_of p + 32 + len_of p (off_of p))).
Proof. exact full_report_errors. Qed.

(* ---- from_chainlink_report ---- *)
Theorem c28_conversion_total : forall r, report_range r -> from_report r <> None.
Proof. exact conversion_total. Qed.

Theorem c28_rejects_negative_or_misordered : forall r, report_range r ->
  (fst (r_price r) = false \/ fst (r_bid r) = false \/ fst (r_ask r) = false \/
   snd (r_ask r) < snd (r_price r) \/ snd (r_price r) < snd (r_bid r)) ->
  exists e, from_report r = Some (Err e) /\ 1 <= e <= 5.
Proof. exact rejects_negative_or_misordered. Qed.

(* success: order preserved, one power of ten (decimals = 18 - k), quotients fit u128, stamps and flags *)
Theorem c28_conversion_ok : forall r o, report_range r -> from_report r = Some (Ok o) ->
  let price := snd (r_price r) in let bid := snd (r_bid r) in let ask := snd (r_ask r) in
  let k := find_divisor_decimals ask in
  fst (r_price r) = true /\ fst (r_bid r) = true /\ fst (r_ask r) = true /\
  bid <= price <= ask /\
  p_dec o = 18 - k /\ 0 <= k <= 18 /\
  p_price o = price / 10 ^ k /\ p_min o = bid / 10 ^ k /\ p_max o = ask / 10 ^ k /\
  0 <= p_min o <= p_price o /\ p_price o <= p_max o /\ p_max o < 2 ^ 128 /\
  p_ts o = r_obs r /\ p_status o = canonical_status (r_ext r) /\
  Z.odd (p_flags o) = true /\
  (r_last r = None -> p_flags o = 1 /\ p_lud o = 0) /\
  (forall l, r_last r = Some l -> p_flags o = 7 /\ l < r_obs r * NANOS + NANOS /\
      0 <= p_lud o < 2 ^ 32 /\
      (l <= r_obs r * NANOS -> (p_lud o - 1) * NANOS < r_obs r * NANOS - l <= p_lud o * NANOS) /\
      (r_obs r * NANOS < l -> p_lud o = 0)).
Proof. exact conversion_ok. Qed.

Theorem c28_from_report_spec : forall r, report_range r ->
  from_report r =
    if negb (fst (r_price r)) then Some (Err 1)
    else if negb (fst (r_bid r)) then Some (Err 2)
    else if negb (fst (r_ask r)) then Some (Err 3)
    else let price := snd (r_price r) in let bid := snd (r_bid r) in let ask := snd (r_ask r) in
      if ask <? price then Some (Err 4)
      else if price <? bid then Some (Err 5)
      else let k := find_divisor_decimals ask in
        if 18 <? k then Some (Err 6)
        else match lud_spec r with
             | Err x => Some (Err x)
             | Ok lud =>
                 Some (Ok (mkPfp (18 - k) (1 + match lud with Some _ => 6 | None => 0 end) (canonical_status (r_ext r))
                                 (match lud with Some s => s | None => 0 end) (r_obs r)
                                 (price / 10 ^ k) (bid / 10 ^ k) (ask / 10 ^ k)))
             end.
Proof. exact from_report_spec. Qed.

Theorem c28_report_of_single : forall f r, (f_version f = 2 \/ f_version f = 7 \/ f_version f = 8) -> report_of f = Ok r ->
  r_bid r = r_price r /\ r_ask r = r_price r /\ snd (r_price r) = Z.abs (f_price f) /\ fst (r_price r) = negb (f_price f <? 0).
Proof. exact report_of_single. Qed.

(* non-vacuity: the XAU v11 values of the repository's own test *)
Example c28_ex1 :
  fields_to_pfp (mkFields 11 1775903228 4749304997500000000000 4749300000000000000000 4749310000000000000000 1775903227584000000 5)
  = Some (Ok (mkPfp 18 7 6 1 1775903228 4749304997500000000000 4749300000000000000000 4749310000000000000000)).
Proof. vm_compute. reflexivity. Qed.
Example c28_ex2 : fields_to_pfp (mkFields 3 100 5 (-1) 6 0 0) = Some (Err 2)
               /\ fields_to_pfp (mkFields 3 100 7 5 6 0 0) = Some (Err 4)
               /\ fields_to_pfp (mkFields 3 100 (2 ^ 130) 5 (2 ^ 131) 0 0) = Some (Ok (mkPfp 17 1 0 0 100 136112946768375385385349842972707284582 0 272225893536750770770699685945414569164)).
Proof. vm_compute. repeat split; reflexivity. Qed.
