(* C18 — every RoleStore operation simulates the abstract operation. *)
From stdpp Require Import gmap.
From GV Require lib.Base C34.Model C34.Proofs C34.Refine C35.Model C18.Model C18.MapSpec C18.Proofs.
Import GV.lib.Base(res, Ok, Err, rbind, of_opt).
Import GV.C34.Model GV.C34.Proofs GV.C34.Refine GV.C35.Model GV.C18.Model GV.C18.MapSpec GV.C18.Proofs.
Open Scope Z_scope.

Lemma enable_sim s A r : sim s A →
  ∃ s', enable_role s r = Ok (s', snd (a_enable A r)) ∧ sim s' (fst (a_enable A r)) ∧
        (∀ e, snd (a_enable A r) = Err e → s' = s).
Proof.
  intros S. pose proof S as (W & EA & G). pose proof (rwf_roles s W) as Wr.
  unfold enable_role, a_enable.
  rewrite (ms_get rmeta0 MAX_ROLES _ _ Wr). cbn [rbind].
  rewrite (sim_role_lookup s A _ S).
  destruct (R s !! r_key r) as [md|] eqn:Ek; cbn [base.fmap option_fmap option_map meta_view].
  - rewrite name_check_ok. destruct (name_ok (rm_name md) (r_name r)); [|by exists s].
    destruct (is_enabled md) eqn:En; [by exists s|].
    set (md' := mkmeta (rm_name md) ROLE_ENABLED (rm_index md)).
    destruct (ms_set rmeta0 MAX_ROLES (roles s) (r_key r) md' md cap_roles Wr Ek) as (m' & E & W' & A').
    rewrite E. cbn [rbind fst snd okA]. eexists. split; [reflexivity|]. split; [|by intros e [=]].
    apply (sim_update_role s A (r_key r) md md' m' S Ek); done.
  - rewrite (ms_len rmeta0 MAX_ROLES _ Wr). pose proof (roles_size_le s W) as Le.
    destruct (Z.ltb_spec 255 (Z.of_nat (size (R s)))); [lia|].
    unfold meta_new. destruct (str_to_bytes NAME_LEN (r_name r)) as [nb|e]; [|by exists s].
    rewrite (sim_roles_size s A S).
    set (md' := mkmeta nb ROLE_ENABLED (Z.of_nat (size (R s)))).
    case_decide as F.
    + rewrite (ms_insert_full rmeta0 MAX_ROLES (roles s) (r_key r) md' Wr Ek F).
      cbn [rbind fst snd fail]. exists s. destruct s. done.
    + destruct (ms_insert_new rmeta0 MAX_ROLES (roles s) (r_key r) md' cap_roles Wr Ek) as (m' & E & W' & A'); [lia|].
      rewrite E. cbn [rbind fst snd okA]. eexists. split; [reflexivity|]. split; [|by intros e [=]].
      apply (sim_new_role s A (r_key r) md' m' S Ek); done.
Qed.

Lemma disable_sim s A r : sim s A →
  ∃ s', disable_role s r = Ok (s', snd (a_disable A r)) ∧ sim s' (fst (a_disable A r)) ∧
        (∀ e, snd (a_disable A r) = Err e → s' = s).
Proof.
  intros S. pose proof S as (W & EA & G). pose proof (rwf_roles s W) as Wr.
  unfold disable_role, a_disable.
  rewrite (ms_get rmeta0 MAX_ROLES _ _ Wr). cbn [rbind].
  rewrite (sim_role_lookup s A _ S).
  destruct (R s !! r_key r) as [md|] eqn:Ek; cbn [base.fmap option_fmap option_map meta_view]; [|by exists s].
  rewrite name_check_ok. destruct (name_ok (rm_name md) (r_name r)); [|by exists s].
  destruct (is_enabled md) eqn:En; [|by exists s].
  set (md' := mkmeta (rm_name md) 0 (rm_index md)).
  destruct (ms_set rmeta0 MAX_ROLES (roles s) (r_key r) md' md cap_roles Wr Ek) as (m' & E & W' & A').
  rewrite E. cbn [rbind fst snd okA]. eexists. split; [reflexivity|]. split; [|by intros e [=]].
  apply (sim_update_role s A (r_key r) md md' m' S Ek); done.
Qed.

Lemma has_sim s A a r : sim s A → has_role s a r = Ok (a_has A a r).
Proof.
  intros S. pose proof S as (W & EA & G). pose proof (rwf_members s W) as Wm.
  unfold has_role, a_has.
  rewrite (ms_get 0 MAX_MEMBERS _ _ Wm). cbn [rbind].
  pose proof (sim_members s A a S) as Hm.
  destruct (M s !! a) as [v|] eqn:Ea.
  - rewrite decide_True by (apply Hm; eauto).
    rewrite (enabled_role_index_sim s A r S). cbn [rbind].
    rewrite (status_sim s A r S).
    destruct (R s !! r_key r) as [md|] eqn:Ek; [|done].
    destruct (name_ok (rm_name md) (r_name r)); [|done].
    destruct (is_enabled md); [|done].
    pose proof (index_lt_32 s _ md W Ek) as Hi.
    rewrite bit_get_ok by lia. cbn [rbind]. do 2 f_equal.
    pose proof (grant_iff s A a (r_key r) v md S Ea Ek) as Hg.
    destruct (Z.testbit v (rm_index md)) eqn:B; symmetry.
    + apply bool_decide_eq_true. by apply Hg.
    + apply bool_decide_eq_false. intros H. apply Hg in H. done.
  - rewrite decide_False; [done|]. intros H. apply Hm in H. by destruct H.
Qed.

(* grants of one address after its bitmap changed to v' *)
Lemma grant_sim s A a r : sim s A →
  ∃ s', grant s a r = Ok (s', snd (a_grant A a r)) ∧ sim s' (fst (a_grant A a r)) ∧
        (∀ e, snd (a_grant A a r) = Err e → s' = s).
Proof.
  intros S. pose proof S as (W & EA & G). pose proof (rwf_members s W) as Wm.
  unfold grant, a_grant.
  rewrite (enabled_role_index_sim s A r S). cbn [rbind].
  rewrite (status_sim s A r S).
  destruct (R s !! r_key r) as [md|] eqn:Ek; [|by exists s].
  destruct (name_ok (rm_name md) (r_name r)); [|by exists s].
  destruct (is_enabled md); [|by exists s].
  pose proof (index_lt_32 s _ md W Ek) as Hi.
  rewrite (ms_get 0 MAX_MEMBERS _ _ Wm). cbn [rbind].
  pose proof (sim_members s A a S) as Hm.
  set (i := rm_index md) in *.
  (* the new grant set, characterised through any bitmap v' = setbit v i *)
  assert (NEW : ∀ v members', 0 <= v →
            (∀ j, 0 <= j → Z.testbit v j = true → ∃ k m0, R s !! k = Some m0 ∧ rm_index m0 = j) →
            (∀ k m0, R s !! k = Some m0 → ((a, k) ∈ ag A ↔ Z.testbit v (rm_index m0) = true)) →
            wf 0 MAX_MEMBERS members' → abs members' = <[a := Z.setbit v i]> (M s) →
            sim (mkrs (roles s) members') (mkA (ar A) ({[(a, r_key r)]} ∪ ag A))).
  { intros v members' Pv Hb Hg W' E'.
    destruct (setbit_facts v i Pv) as (P' & N' & B'); [lia|].
    apply (sim_members_change s A members' _ S W').
    - intros a0 v0. rewrite E'. rewrite lookup_insert_Some. intros [[<- <-]|[Na E0]].
      + split; [done|]. split; [done|]. intros j Pj. rewrite B' by done. case_decide as D.
        * intros _. subst j. by exists (r_key r), md.
        * by apply Hb.
      + destruct (rwf_val s W a0 v0 E0). split; [done|]. split; [done|].
        intros j Pj Bj. by apply (rwf_bits s W a0 v0 j E0).
    - intros a0 k0. rewrite elem_of_union, elem_of_singleton. rewrite E'. split.
      + intros [[= -> ->]|H].
        * exists (Z.setbit v i), md. rewrite lookup_insert. split; [done|]. split; [done|].
          rewrite B' by (unfold i; lia). by rewrite decide_True.
        * apply G in H as (v0 & m0 & E0 & Ek0 & B0).
          destruct (decide (a0 = a)) as [->|Na].
          -- exists (Z.setbit v i), m0. rewrite lookup_insert. split; [done|]. split; [done|].
             pose proof (rwf_index s W k0 m0 Ek0). rewrite B' by lia. case_decide; [done|].
             apply (Hg k0 m0 Ek0). apply G. by exists v0, m0.
          -- exists v0, m0. by rewrite lookup_insert_ne.
      + intros (v0 & m0 & E0 & Ek0 & B0). apply lookup_insert_Some in E0 as [[<- <-]|[Na E0]].
        * pose proof (rwf_index s W k0 m0 Ek0). rewrite B' in B0 by lia. case_decide as D.
          -- left. f_equal. apply (rwf_inj s W k0 (r_key r) m0 md Ek0 Ek D).
          -- right. by apply (Hg k0 m0 Ek0).
        * right. apply G. by exists v0, m0. }
  destruct (M s !! a) as [v|] eqn:Ea.
  - rewrite bit_get_ok by lia. cbn [rbind].
    pose proof (grant_iff s A a (r_key r) v md S Ea Ek) as Hg. fold i in Hg.
    destruct (Z.testbit v i) eqn:B.
    + rewrite decide_True by (by apply Hg). by exists s.
    + rewrite decide_False by (intros H; apply Hg in H; done).
      rewrite decide_True by (apply Hm; eauto).
      rewrite bit_set_ok by lia. cbn [rbind].
      destruct (ms_set 0 MAX_MEMBERS (members s) a (Z.setbit v i) v cap_members Wm Ea) as (m' & E & W' & A').
      rewrite E. cbn [rbind fst snd okA]. eexists. split; [reflexivity|]. split; [|by intros e [=]].
      destruct (rwf_val s W a v Ea) as [Pv _].
      apply (NEW v m' Pv); try done.
      * intros j Pj Bj. by apply (rwf_bits s W a v j Ea).
      * intros k m0 Ek0. by apply (grant_iff s A a k v m0 S Ea Ek0).
  - assert (Ng : (a, r_key r) ∉ ag A).
    { intros H. apply G in H as (v0 & _ & E0 & _). congruence. }
    rewrite decide_False by done.
    assert (Nm : a ∉ amembers A) by (intros H; apply Hm in H; by destruct H).
    rewrite decide_False by done.
    rewrite bit_set_ok by lia. cbn [rbind].
    rewrite (sim_members_size s A S).
    case_decide as F.
    + rewrite (ms_insert_full 0 MAX_MEMBERS (members s) a (Z.setbit 0 i) Wm Ea F).
      cbn [rbind fst snd fail]. exists s. destruct s. done.
    + destruct (ms_insert_new 0 MAX_MEMBERS (members s) a (Z.setbit 0 i) cap_members Wm Ea) as (m' & E & W' & A'); [lia|].
      rewrite E. cbn [rbind fst snd okA]. eexists. split; [reflexivity|]. split; [|by intros e [=]].
      apply (NEW 0 m'); try done.
      * intros j Pj Bj. by rewrite Z.bits_0 in Bj.
      * intros k m0 Ek0. rewrite Z.bits_0. split; [|done].
        intros H. apply G in H as (v0 & _ & E0 & _). congruence.
Qed.

Lemma revoke_sim s A a r : sim s A →
  ∃ s', revoke s a r = Ok (s', snd (a_revoke A a r)) ∧ sim s' (fst (a_revoke A a r)) ∧
        (∀ e, snd (a_revoke A a r) = Err e → s' = s).
Proof.
  intros S. pose proof S as (W & EA & G). pose proof (rwf_members s W) as Wm.
  unfold revoke, a_revoke.
  rewrite (role_index_sim s A r S). cbn [rbind].
  rewrite (status_sim s A r S).
  destruct (R s !! r_key r) as [md|] eqn:Ek; [|by exists s].
  destruct (name_ok (rm_name md) (r_name r)); [|by exists s].
  pose proof (index_lt_32 s _ md W Ek) as Hi.
  rewrite (ms_get 0 MAX_MEMBERS _ _ Wm). cbn [rbind].
  pose proof (sim_members s A a S) as Hm.
  set (i := rm_index md) in *.
  destruct (M s !! a) as [v|] eqn:Ea.
  2:{ rewrite decide_False; [by exists s|]. intros H. apply Hm in H. by destruct H. }
  rewrite decide_True by (apply Hm; eauto).
  rewrite bit_get_ok by lia. cbn [rbind].
  pose proof (grant_iff s A a (r_key r) v md S Ea Ek) as Hg. fold i in Hg.
  destruct (Z.testbit v i) eqn:B.
  2:{ rewrite decide_False by (intros H; apply Hg in H; done). by exists s. }
  rewrite decide_True by (by apply Hg).
  rewrite bit_set_ok by lia. cbn [rbind].
  destruct (rwf_val s W a v Ea) as [Pv _].
  destruct (clearbit_facts v i Pv) as (P' & B'); [lia|].
  set (v' := Z.clearbit v i) in *.
  destruct (ms_set 0 MAX_MEMBERS (members s) a v' v cap_members Wm Ea) as (m1 & E1 & W1 & A1).
  rewrite E1. cbn [rbind fst snd].
  (* grants of the other addresses are untouched; those of [a] follow v' *)
  assert (OTHER : ∀ a0 k0, a0 ≠ a → ((a0, k0) ∈ ag A ∖ {[(a, r_key r)]} ↔ (a0, k0) ∈ ag A)).
  { intros a0 k0 Na. rewrite elem_of_difference, elem_of_singleton. split; [tauto|].
    intros H. split; [done|]. intros [= -> _]. done. }
  assert (MINE : ∀ k0 m0, R s !! k0 = Some m0 →
            ((a, k0) ∈ ag A ∖ {[(a, r_key r)]} ↔ Z.testbit v' (rm_index m0) = true)).
  { intros k0 m0 Ek0. rewrite elem_of_difference, elem_of_singleton.
    pose proof (rwf_index s W k0 m0 Ek0). rewrite B' by lia.
    rewrite (grant_iff s A a k0 v m0 S Ea Ek0). case_decide as D.
    - split; [|done]. intros [_ N]. exfalso. apply N. f_equal.
      apply (rwf_inj s W k0 (r_key r) m0 md Ek0 Ek D).
    - split; [tauto|]. intros Bt. split; [done|]. intros [= Hk]. apply D.
      assert (Some m0 = Some md) as [= ->] by congruence. done. }
  destruct (Z.eqb_spec v' 0) as [Z0|NZ].
  - (* last role revoked: the membership is removed *)
    assert (A1a : abs m1 !! a = Some v') by (rewrite A1; by rewrite lookup_insert).
    destruct (ms_remove 0 MAX_MEMBERS m1 a v' cap_members W1 A1a) as (m2 & E2 & W2 & A2).
    rewrite E2. cbn [rbind fst snd okA]. eexists. split; [reflexivity|]. split; [|by intros e [=]].
    assert (A2' : abs m2 = delete a (M s)) by (rewrite A2, A1; apply delete_insert_delete).
    apply (sim_members_change s A m2 _ S W2).
    + intros a0 v0. rewrite A2'. rewrite lookup_delete_Some. intros [Na E0].
      destruct (rwf_val s W a0 v0 E0). split; [done|]. split; [done|].
      intros j Pj Bj. by apply (rwf_bits s W a0 v0 j E0).
    + intros a0 k0. rewrite A2'. split.
      * intros H. destruct (decide (a0 = a)) as [->|Na].
        -- exfalso. assert (H' := H). apply elem_of_difference in H' as [H' _].
           apply G in H' as (v0 & m0 & E0 & Ek0 & B0).
           apply (MINE k0 m0 Ek0) in H. rewrite Z0 in H. by rewrite Z.bits_0 in H.
        -- apply (OTHER a0 k0 Na) in H. apply G in H as (v0 & m0 & E0 & Ek0 & B0).
           exists v0, m0. by rewrite lookup_delete_ne.
      * intros (v0 & m0 & E0 & Ek0 & B0). apply lookup_delete_Some in E0 as [Na E0].
        apply (OTHER a0 k0); [done|]. apply G. by exists v0, m0.
  - cbn [okA]. eexists. split; [reflexivity|]. split; [|by intros e [=]].
    apply (sim_members_change s A m1 _ S W1).
    + intros a0 v0. rewrite A1. rewrite lookup_insert_Some. intros [[<- <-]|[Na E0]].
      * split; [done|]. split; [done|]. intros j Pj. rewrite B' by done. case_decide; [done|].
        intros Bj. by apply (rwf_bits s W a v j Ea).
      * destruct (rwf_val s W a0 v0 E0). split; [done|]. split; [done|].
        intros j Pj Bj. by apply (rwf_bits s W a0 v0 j E0).
    + intros a0 k0. rewrite A1. split.
      * intros H. destruct (decide (a0 = a)) as [->|Na].
        -- assert (H' := H). apply elem_of_difference in H' as [H' _].
           apply G in H' as (v0 & m0 & E0 & Ek0 & B0).
           exists v', m0. rewrite lookup_insert. split; [done|]. split; [done|]. by apply (MINE k0 m0 Ek0).
        -- apply (OTHER a0 k0 Na) in H. apply G in H as (v0 & m0 & E0 & Ek0 & B0).
           exists v0, m0. by rewrite lookup_insert_ne.
      * intros (v0 & m0 & E0 & Ek0 & B0). apply lookup_insert_Some in E0 as [[<- <-]|[Na E0]].
        -- by apply (MINE k0 m0 Ek0).
        -- apply (OTHER a0 k0); [done|]. apply G. by exists v0, m0.
Qed.
