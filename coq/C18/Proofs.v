(* C18 — RoleStore refines "a set of grants gated by enabled roles". *)
From stdpp Require Import gmap.
From GV Require lib.Base C34.Model C34.Proofs C34.Refine C35.Model C18.Model C18.MapSpec.
Import GV.lib.Base(res, Ok, Err, rbind, of_opt).
Import GV.C34.Model GV.C34.Proofs GV.C34.Refine GV.C35.Model GV.C18.Model GV.C18.MapSpec.
Open Scope Z_scope.

Notation R s := (abs (roles s)).
Notation M s := (abs (members s)).

Lemma cap_roles : 0 <= MAX_ROLES < 2 ^ 32.
Proof. unfold MAX_ROLES. lia. Qed.
Lemma cap_members : 0 <= MAX_MEMBERS < 2 ^ 32.
Proof. unfold MAX_MEMBERS. lia. Qed.

(* ------------------------------------------------------------------ representation invariant *)
Record rwf (s : rstore) : Prop := {
  rwf_roles : wf rmeta0 MAX_ROLES (roles s);
  rwf_members : wf 0 MAX_MEMBERS (members s);
  (* role indices are creation ranks: below the number of roles, pairwise distinct *)
  rwf_index : ∀ k md, R s !! k = Some md → 0 <= rm_index md < Z.of_nat (size (R s));
  rwf_inj : ∀ k1 k2 md1 md2, R s !! k1 = Some md1 → R s !! k2 = Some md2 →
            rm_index md1 = rm_index md2 → k1 = k2;
  (* a stored member has at least one bit, and only bits of existing roles *)
  rwf_val : ∀ a v, M s !! a = Some v → 0 <= v ∧ v ≠ 0;
  rwf_bits : ∀ a v i, M s !! a = Some v → 0 <= i → Z.testbit v i = true →
             ∃ k md, R s !! k = Some md ∧ rm_index md = i }.

Lemma rwf_zero : rwf rstore0.
Proof.
  assert (E1 : R rstore0 = ∅) by (apply abs_empty; apply cap_roles).
  assert (E2 : M rstore0 = ∅) by (apply abs_empty; apply cap_members).
  split.
  - apply wf_empty, cap_roles.
  - apply wf_empty, cap_members.
  - intros k md. rewrite E1. by rewrite lookup_empty.
  - intros k1 k2 md1 md2. rewrite E1. by rewrite lookup_empty.
  - intros a v. rewrite E2. by rewrite lookup_empty.
  - intros a v i. rewrite E2. by rewrite lookup_empty.
Qed.

Lemma roles_size_le s : rwf s → Z.of_nat (size (R s)) <= 32.
Proof.
  intros W. rewrite (abs_size rmeta0 MAX_ROLES _ (rwf_roles s W)).
  destruct (rwf_roles s W) as [_ Hc _ _]. unfold MAX_ROLES in Hc. lia.
Qed.

Lemma index_lt_32 s k md : rwf s → R s !! k = Some md → 0 <= rm_index md < 32.
Proof.
  intros W E. pose proof (rwf_index s W k md E). pose proof (roles_size_le s W). lia.
Qed.

(* ------------------------------------------------------------------ abstract state *)
Record astate := mkA {
  ar : gmap Z (list Z * bool);      (* role key -> (stored name bytes, enabled) *)
  ag : gset (Z * Z) }.              (* grants: (address, role key) *)

Definition amembers (A : astate) : gset Z := set_map fst (ag A).

Definition gbit (s : rstore) (a k : Z) : Prop :=
  ∃ v md, M s !! a = Some v ∧ R s !! k = Some md ∧ Z.testbit v (rm_index md) = true.

Definition meta_view (md : rmeta) : list Z * bool := (rm_name md, is_enabled md).

Definition sim (s : rstore) (A : astate) : Prop :=
  rwf s ∧ ar A = meta_view <$> R s ∧ ∀ a k, (a, k) ∈ ag A ↔ gbit s a k.

Lemma sim_zero : sim rstore0 (mkA ∅ ∅).
Proof.
  split; [apply rwf_zero|]. split.
  - assert (E1 : R rstore0 = ∅) by (apply abs_empty; apply cap_roles).
    cbn [ar]. rewrite E1. by rewrite fmap_empty.
  - intros a k. cbn [ag]. split; [set_solver|].
    intros (v & md & E & _).
    assert (E2 : M rstore0 = ∅) by (apply abs_empty; apply cap_members).
    rewrite E2 in E. by rewrite lookup_empty in E.
Qed.

Lemma pos_has_bit v : 0 <= v → v ≠ 0 → ∃ i, 0 <= i ∧ Z.testbit v i = true.
Proof.
  intros H N. exists (Z.log2 v). split; [apply Z.log2_nonneg|]. apply Z.bit_log2. lia.
Qed.

Lemma sim_members s A a : sim s A → a ∈ amembers A ↔ is_Some (M s !! a).
Proof.
  intros (W & _ & G). unfold amembers. rewrite elem_of_map. split.
  - intros ([a' k] & -> & H). apply G in H as (v & md & E & _). by exists v.
  - intros [v E]. destruct (rwf_val s W a v E) as [P N].
    destruct (pos_has_bit v P N) as (i & Pi & B).
    destruct (rwf_bits s W a v i E Pi B) as (k & md & Ek & Ei).
    exists (a, k). split; [done|]. apply G. exists v, md. by rewrite Ei.
Qed.

Lemma sim_dom s A : sim s A → amembers A = dom (M s).
Proof.
  intros S. apply set_eq. intros a. rewrite (sim_members s A a S). by rewrite elem_of_dom.
Qed.

Lemma sim_members_size s A : sim s A → size (amembers A) = size (M s).
Proof. intros S. rewrite (sim_dom s A S). by rewrite size_dom. Qed.

Lemma sim_roles_size s A : sim s A → size (ar A) = size (R s).
Proof. intros (_ & E & _). rewrite E. by rewrite map_size_fmap. Qed.

Lemma sim_role_lookup s A k : sim s A → ar A !! k = meta_view <$> (R s !! k).
Proof. intros (_ & E & _). rewrite E. by rewrite lookup_fmap. Qed.

(* ------------------------------------------------------------------ abstract operations *)
Definition name_ok (stored n : list Z) : bool :=
  match bytes_to_str stored with Ok x => list_eqb x n | Err _ => false end.

Lemma name_check_ok md r : name_check md r = if name_ok (rm_name md) (r_name r) then Ok tt else Err EC_ARG.
Proof. unfold name_check, name_ok. destruct (bytes_to_str (rm_name md)); [|done]. by destruct (list_eqb _ _). Qed.

(* lookup of a role by (key, name): Err = stored name does not read back as the given name *)
Definition a_status (A : astate) (r : role) : res (option bool) :=
  match (ar A !! r_key r : option (list Z * bool)) with
  | Some (nm, en) => if name_ok nm (r_name r) then Ok (Some en) else Err EC_ARG
  | None => Ok None
  end.

Definition fail (A : astate) (e : Z) : astate * res unit := (A, Err e).
Definition okA (A : astate) : astate * res unit := (A, Ok tt).

Definition a_enable (A : astate) (r : role) : astate * res unit :=
  match (ar A !! r_key r : option (list Z * bool)) with
  | Some (nm, en) =>
      if name_ok nm (r_name r) then
        if en then fail A EC_PRE else okA (mkA (<[r_key r := (nm, true)]> (ar A)) (ag A))
      else fail A EC_ARG
  | None =>
      match str_to_bytes NAME_LEN (r_name r) with
      | Err e => fail A (if e =? E_LEN then EC_LEN else EC_ARG)
      | Ok nb =>
          if decide (MAX_ROLES <= Z.of_nat (size (ar A))) then fail A EC_FULL
          else okA (mkA (<[r_key r := (nb, true)]> (ar A)) (ag A))
      end
  end.

Definition a_disable (A : astate) (r : role) : astate * res unit :=
  match (ar A !! r_key r : option (list Z * bool)) with
  | Some (nm, en) =>
      if name_ok nm (r_name r) then
        if en then okA (mkA (<[r_key r := (nm, false)]> (ar A)) (ag A)) else fail A EC_PRE
      else fail A EC_ARG
  | None => okA A
  end.

Definition a_has (A : astate) (a : Z) (r : role) : res bool :=
  if decide (a ∈ amembers A) then
    match a_status A r with
    | Err e => Err e
    | Ok None => Err EC_NOTFOUND
    | Ok (Some false) => Err EC_PRE
    | Ok (Some true) => Ok (bool_decide ((a, r_key r) ∈ ag A))
    end
  else Err EC_DENIED.

Definition a_grant (A : astate) (a : Z) (r : role) : astate * res unit :=
  match a_status A r with
  | Err e => fail A e
  | Ok None => fail A EC_NOTFOUND
  | Ok (Some false) => fail A EC_PRE
  | Ok (Some true) =>
      if decide ((a, r_key r) ∈ ag A) then fail A EC_PRE
      else if decide (a ∈ amembers A) then okA (mkA (ar A) ({[(a, r_key r)]} ∪ ag A))
      else if decide (MAX_MEMBERS <= Z.of_nat (size (amembers A))) then fail A EC_FULL
      else okA (mkA (ar A) ({[(a, r_key r)]} ∪ ag A))
  end.

Definition a_revoke (A : astate) (a : Z) (r : role) : astate * res unit :=
  match a_status A r with
  | Err e => fail A e
  | Ok None => fail A EC_NOTFOUND
  | Ok (Some _) =>
      if decide (a ∈ amembers A) then
        if decide ((a, r_key r) ∈ ag A) then okA (mkA (ar A) (ag A ∖ {[(a, r_key r)]}))
        else fail A EC_PRE
      else fail A EC_DENIED
  end.

(* ------------------------------------------------------------------ generic preservation *)
(* replacing the metadata of an existing role, index kept *)
Lemma sim_update_role s A k md md' roles' :
  sim s A → R s !! k = Some md → rm_index md' = rm_index md →
  wf rmeta0 MAX_ROLES roles' → abs roles' = <[k := md']> (R s) →
  sim (mkrs roles' (members s)) (mkA (<[k := meta_view md']> (ar A)) (ag A)).
Proof.
  intros (W & EA & G) Ek Ei W' E'.
  assert (Sz : size (abs roles') = size (R s)).
  { rewrite E'. apply map_size_insert_Some. by exists md. }
  assert (L : ∀ k0 m0, abs roles' !! k0 = Some m0 →
              ∃ m1, R s !! k0 = Some m1 ∧ rm_index m1 = rm_index m0).
  { intros k0 m0. rewrite E'. rewrite lookup_insert_Some. intros [[<- <-]|[N E0]]; [by exists md|by exists m0]. }
  split; [|split].
  - split; cbn [roles members].
    + done.
    + apply W.
    + intros k0 m0 E0. rewrite Sz. destruct (L k0 m0 E0) as (m1 & E1 & <-). by apply (rwf_index s W k0).
    + intros k1 k2 m1 m2 E1 E2 Hi.
      destruct (L k1 m1 E1) as (n1 & F1 & I1). destruct (L k2 m2 E2) as (n2 & F2 & I2).
      apply (rwf_inj s W k1 k2 n1 n2 F1 F2). congruence.
    + apply W.
    + intros a v i Ea Pi B. destruct (rwf_bits s W a v i Ea Pi B) as (k0 & m0 & E0 & I0).
      destruct (decide (k0 = k)) as [->|N].
      * exists k, md'. rewrite E'. rewrite lookup_insert. split; [done|]. congruence.
      * exists k0, m0. rewrite E'. by rewrite lookup_insert_ne.
  - cbn [roles members ar]. rewrite E'. rewrite fmap_insert. by rewrite EA.
  - intros a k0. cbn [ag]. rewrite G. unfold gbit. cbn [roles members]. split.
    + intros (v & m0 & Ea & E0 & B). destruct (decide (k0 = k)) as [->|N].
      * exists v, md'. rewrite E'. rewrite lookup_insert. split; [done|]. split; [done|]. congruence.
      * exists v, m0. rewrite E'. by rewrite lookup_insert_ne.
    + intros (v & m0 & Ea & E0 & B). destruct (L k0 m0 E0) as (m1 & E1 & I1).
      exists v, m1. by rewrite I1.
Qed.

(* creating a role with the next index *)
Lemma sim_new_role s A k md' roles' :
  sim s A → R s !! k = None → rm_index md' = Z.of_nat (size (R s)) →
  wf rmeta0 MAX_ROLES roles' → abs roles' = <[k := md']> (R s) →
  sim (mkrs roles' (members s)) (mkA (<[k := meta_view md']> (ar A)) (ag A)).
Proof.
  intros (W & EA & G) Ek Ei W' E'.
  assert (Sz : size (abs roles') = S (size (R s))).
  { rewrite E'. by apply map_size_insert_None. }
  split; [|split].
  - split; cbn [roles members].
    + done.
    + apply W.
    + intros k0 m0. rewrite Sz. rewrite E'. rewrite lookup_insert_Some.
      intros [[<- <-]|[N E0]]; [lia|]. pose proof (rwf_index s W k0 m0 E0). lia.
    + intros k1 k2 m1 m2. rewrite E'. rewrite !lookup_insert_Some.
      intros [[<- <-]|[N1 E1]] [[<- <-]|[N2 E2]] Hi; try done.
      * pose proof (rwf_index s W k2 m2 E2). lia.
      * pose proof (rwf_index s W k1 m1 E1). lia.
      * by apply (rwf_inj s W k1 k2 m1 m2).
    + apply W.
    + intros a v i Ea Pi B. destruct (rwf_bits s W a v i Ea Pi B) as (k0 & m0 & E0 & I0).
      exists k0, m0. rewrite E'. rewrite lookup_insert_ne; [done|]. intros <-. by rewrite Ek in E0.
  - cbn [roles members ar]. rewrite E'. rewrite fmap_insert. by rewrite EA.
  - intros a k0. cbn [ag]. rewrite G. unfold gbit. cbn [roles members]. split.
    + intros (v & m0 & Ea & E0 & B). exists v, m0. rewrite E'.
      rewrite lookup_insert_ne; [done|]. intros <-. by rewrite Ek in E0.
    + intros (v & m0 & Ea & E0 & B). rewrite E' in E0. apply lookup_insert_Some in E0 as [[<- <-]|[N E0]].
      * (* no member can already carry the fresh index *)
        destruct (rwf_bits s W a v (rm_index md') Ea) as (k1 & m1 & E1 & I1); [lia|done|].
        pose proof (rwf_index s W k1 m1 E1). lia.
      * by exists v, m0.
Qed.

(* any change of the members map that keeps the member invariants *)
Lemma sim_members_change s A members' ag' :
  sim s A → wf 0 MAX_MEMBERS members' →
  (∀ a v, abs members' !! a = Some v → 0 <= v ∧ v ≠ 0 ∧
          ∀ i, 0 <= i → Z.testbit v i = true → ∃ k md, R s !! k = Some md ∧ rm_index md = i) →
  (∀ a k, (a, k) ∈ ag' ↔
          ∃ v md, abs members' !! a = Some v ∧ R s !! k = Some md ∧ Z.testbit v (rm_index md) = true) →
  sim (mkrs (roles s) members') (mkA (ar A) ag').
Proof.
  intros (W & EA & G) W' Hv Hg. split; [|split].
  - split; cbn [roles members]; try apply W; try done.
    + intros a v E. destruct (Hv a v E) as (P & N & _). done.
    + intros a v i E Pi B. destruct (Hv a v E) as (_ & _ & H). by apply H.
  - done.
  - intros a k. cbn [ag roles members]. unfold gbit. cbn [roles members]. by rewrite Hg.
Qed.

(* ------------------------------------------------------------------ bit facts *)
Lemma setbit_facts v i : 0 <= v → 0 <= i →
  0 <= Z.setbit v i ∧ Z.setbit v i ≠ 0 ∧
  ∀ j, 0 <= j → Z.testbit (Z.setbit v i) j = (if decide (j = i) then true else Z.testbit v j).
Proof.
  intros Pv Pi.
  assert (B : ∀ j, 0 <= j → Z.testbit (Z.setbit v i) j = (if decide (j = i) then true else Z.testbit v j)).
  { intros j Pj. case_decide as D.
    - subst. by apply Z.setbit_eq.
    - apply Z.setbit_neq; [done|]. intros E. by apply D. }
  split; [|split; [|done]].
  - rewrite Z.setbit_spec'. apply Z.lor_nonneg. split; [done|]. apply Z.pow_nonneg. lia.
  - intros E. specialize (B i Pi). rewrite E in B. rewrite Z.bits_0 in B. by rewrite decide_True in B.
Qed.

Lemma clearbit_facts v i : 0 <= v → 0 <= i →
  0 <= Z.clearbit v i ∧
  ∀ j, 0 <= j → Z.testbit (Z.clearbit v i) j = (if decide (j = i) then false else Z.testbit v j).
Proof.
  intros Pv Pi. split.
  - rewrite Z.clearbit_spec'. apply Z.ldiff_nonneg. by left.
  - intros j Pj. case_decide as D.
    + subst. by apply Z.clearbit_eq.
    + apply Z.clearbit_neq. intros E. by apply D.
Qed.

(* ------------------------------------------------------------------ concrete lookups *)
Lemma status_sim s A r : sim s A →
  a_status A r =
    match R s !! r_key r with
    | Some md => if name_ok (rm_name md) (r_name r) then Ok (Some (is_enabled md)) else Err EC_ARG
    | None => Ok None
    end.
Proof.
  intros S. unfold a_status. rewrite (sim_role_lookup s A _ S).
  destruct (R s !! r_key r) as [md|]; simpl; done.
Qed.

Lemma role_index_sim s A r : sim s A →
  role_index s r = Ok (match R s !! r_key r with
                       | Some md => if name_ok (rm_name md) (r_name r) then Ok (Some (rm_index md)) else Err EC_ARG
                       | None => Ok None
                       end).
Proof.
  intros (W & _). unfold role_index. rewrite (ms_get rmeta0 MAX_ROLES _ _ (rwf_roles s W)). simpl.
  destruct (R s !! r_key r) as [md|]; [|done]. rewrite name_check_ok. by destruct (name_ok _ _).
Qed.

Lemma enabled_role_index_sim s A r : sim s A →
  enabled_role_index s r =
    Ok (match R s !! r_key r with
        | Some md => if name_ok (rm_name md) (r_name r)
                     then (if is_enabled md then Ok (Some (rm_index md)) else Err EC_PRE) else Err EC_ARG
        | None => Ok None
        end).
Proof.
  intros (W & _). unfold enabled_role_index. rewrite (ms_get rmeta0 MAX_ROLES _ _ (rwf_roles s W)). simpl.
  destruct (R s !! r_key r) as [md|]; [|done]. rewrite name_check_ok.
  destruct (name_ok _ _); [|done]. by destruct (is_enabled md).
Qed.

Lemma grant_iff s A a k v md : sim s A → M s !! a = Some v → R s !! k = Some md →
  (a, k) ∈ ag A ↔ Z.testbit v (rm_index md) = true.
Proof.
  intros (W & _ & G) Ea Ek. rewrite G. split.
  - intros (v' & md' & Ea' & Ek' & B). congruence.
  - intros B. by exists v, md.
Qed.

Lemma bit_get_ok v i : i < 32 → bit_get v i = Ok (Z.testbit v i).
Proof. intros H. unfold bit_get. destruct (Z.ltb_spec i 32); [done|lia]. Qed.
Lemma bit_set_ok v i b : i < 32 → bit_set v i b = Ok (if b then Z.setbit v i else Z.clearbit v i).
Proof. intros H. unfold bit_set. destruct (Z.ltb_spec i 32); [done|lia]. Qed.
