(* C18 — executable model of programs/store/src/states/roles.rs (RoleStore over two fixed
   maps) and of the restart rule in states/store.rs.  Definitions only.

   The two maps are the C34 model instantiated at RoleMap (capacity 32, key = to_key(name)
   = SHA-256 of the name, value = RoleMetadata) and Members (capacity 64, key = pubkey
   bytes, value = u32 bitmap over role indices).  A role argument carries both the hashed
   key and the name bytes (the hash is not modelled; the driver supplies consistent pairs).
   Names go through the C35 model (fixed_str_to_bytes::<32> / bytes_to_fixed_str).

   Result shape: outer [res] = panic channel (fixed-map index errors, bitmap debug_assert);
   inner [res] = anchor error:
     1 CoreError::InvalidArgument      2 CoreError::PreconditionsAreNotMet
     3 CoreError::ExceedMaxLengthLimit 4 CoreError::NotFound
     5 CoreError::PermissionDenied     6 CoreError::StoreOutdated
     7 GeneralError::ExceedMaxLengthLimit (map full)   8 GeneralError::AlreadyExist *)
From GV Require Import lib.Base C34.Model C35.Model.
Open Scope Z_scope.

Definition EC_ARG : Z := 1.
Definition EC_PRE : Z := 2.
Definition EC_LEN : Z := 3.
Definition EC_NOTFOUND : Z := 4.
Definition EC_DENIED : Z := 5.
Definition EC_OUTDATED : Z := 6.
Definition EC_FULL : Z := 7.
Definition EC_EXIST : Z := 8.
Definition P_BITMAP : Z := 110.        (* bitmaps: debug_assert!(index < SIZE) *)

Definition MAX_ROLES : Z := 32.
Definition MAX_MEMBERS : Z := 64.
Definition NAME_LEN : Z := 32.
Definition ROLE_ENABLED : Z := 255.

Record rmeta := mkmeta { rm_name : list Z; rm_enabled : Z; rm_index : Z }.
Definition rmeta0 : rmeta := mkmeta (repeat 0 32) 0 0.            (* #[derive(Default)] *)

Record rstore := mkrs { roles : @fmap rmeta; members : @fmap Z }.
Definition rstore0 : rstore := mkrs (empty rmeta0 MAX_ROLES) (empty 0 MAX_MEMBERS).   (* zeroed *)

Record role := mkrole { r_key : Z; r_name : list Z }.

Definition gen_err (e : Z) : Z := if e =? E_EXIST then EC_EXIST else EC_FULL.

Definition is_enabled (md : rmeta) : bool := rm_enabled md =? ROLE_ENABLED.

(* require_eq!(metadata.name()?, role, CoreError::InvalidArgument) *)
Definition name_check (md : rmeta) (r : role) : res unit :=
  match bytes_to_str (rm_name md) with
  | Err _ => Err EC_ARG                      (* InvalidFormat | Utf8 -> InvalidArgument *)
  | Ok n => if list_eqb n (r_name r) then Ok tt else Err EC_ARG
  end.

(* RoleMetadata::new *)
Definition meta_new (r : role) (index : Z) : res rmeta :=
  match str_to_bytes NAME_LEN (r_name r) with
  | Err e => Err (if e =? E_LEN then EC_LEN else EC_ARG)     (* ExceedMaxLengthLimit | InvalidFormat -> InvalidArgument *)
  | Ok nb => Ok (mkmeta nb ROLE_ENABLED index)
  end.

Definition enable_role (s : rstore) (r : role) : res (rstore * res unit) :=
  g <-- get rmeta0 (roles s) (r_key r) ;;
  match g with
  | Some md =>
      match name_check md r with
      | Err e => Ok (s, Err e)
      | Ok _ =>
          if is_enabled md then Ok (s, Err EC_PRE)
          else u <-- set_value rmeta0 (roles s) (r_key r) (mkmeta (rm_name md) ROLE_ENABLED (rm_index md)) ;;
               Ok (mkrs (fst u) (members s), Ok tt)
      end
  | None =>
      let n := len (roles s) in
      if 255 <? n then Ok (s, Err EC_LEN)              (* usize -> u8 try_into *)
      else match meta_new r n with
      | Err e => Ok (s, Err e)
      | Ok md =>
          i <-- insert_with_options rmeta0 MAX_ROLES (roles s) (r_key r) md true ;;
          match snd i with
          | Ok _ => Ok (mkrs (fst i) (members s), Ok tt)
          | Err e => Ok (mkrs (fst i) (members s), Err (gen_err e))
          end
      end
  end.

Definition disable_role (s : rstore) (r : role) : res (rstore * res unit) :=
  g <-- get rmeta0 (roles s) (r_key r) ;;
  match g with
  | Some md =>
      match name_check md r with
      | Err e => Ok (s, Err e)
      | Ok _ =>
          if is_enabled md then
            u <-- set_value rmeta0 (roles s) (r_key r) (mkmeta (rm_name md) 0 (rm_index md)) ;;
            Ok (mkrs (fst u) (members s), Ok tt)
          else Ok (s, Err EC_PRE)
      end
  | None => Ok (s, Ok tt)
  end.

Definition role_index (s : rstore) (r : role) : res (res (option Z)) :=
  g <-- get rmeta0 (roles s) (r_key r) ;;
  match g with
  | Some md => match name_check md r with Err e => Ok (Err e) | Ok _ => Ok (Ok (Some (rm_index md))) end
  | None => Ok (Ok None)
  end.

Definition enabled_role_index (s : rstore) (r : role) : res (res (option Z)) :=
  g <-- get rmeta0 (roles s) (r_key r) ;;
  match g with
  | Some md =>
      match name_check md r with
      | Err e => Ok (Err e)
      | Ok _ => if is_enabled md then Ok (Ok (Some (rm_index md))) else Ok (Err EC_PRE)
      end
  | None => Ok (Ok None)
  end.

(* Bitmap<32> over a u32 *)
Definition bit_get (v i : Z) : res bool := if i <? 32 then Ok (Z.testbit v i) else Err P_BITMAP.
Definition bit_set (v i : Z) (b : bool) : res Z :=
  if i <? 32 then Ok (if b then Z.setbit v i else Z.clearbit v i) else Err P_BITMAP.

Definition has_role (s : rstore) (a : Z) (r : role) : res (res bool) :=
  g <-- get 0 (members s) a ;;
  match g with
  | None => Ok (Err EC_DENIED)
  | Some v =>
      e <-- enabled_role_index s r ;;
      match e with
      | Err c => Ok (Err c)
      | Ok None => Ok (Err EC_NOTFOUND)
      | Ok (Some i) => b <-- bit_get v i ;; Ok (Ok b)
      end
  end.

Definition grant (s : rstore) (a : Z) (r : role) : res (rstore * res unit) :=
  e <-- enabled_role_index s r ;;
  match e with
  | Err c => Ok (s, Err c)
  | Ok None => Ok (s, Err EC_NOTFOUND)
  | Ok (Some i) =>
      g <-- get 0 (members s) a ;;
      match g with
      | Some v =>
          b <-- bit_get v i ;;
          if b then Ok (s, Err EC_PRE)
          else v' <-- bit_set v i true ;;
               u <-- set_value 0 (members s) a v' ;;
               Ok (mkrs (roles s) (fst u), Ok tt)
      | None =>
          v' <-- bit_set 0 i true ;;
          u <-- insert_with_options 0 MAX_MEMBERS (members s) a v' true ;;
          match snd u with
          | Ok _ => Ok (mkrs (roles s) (fst u), Ok tt)
          | Err c => Ok (mkrs (roles s) (fst u), Err (gen_err c))
          end
      end
  end.

Definition revoke (s : rstore) (a : Z) (r : role) : res (rstore * res unit) :=
  e <-- role_index s r ;;
  match e with
  | Err c => Ok (s, Err c)
  | Ok None => Ok (s, Err EC_NOTFOUND)
  | Ok (Some i) =>
      g <-- get 0 (members s) a ;;
      match g with
      | None => Ok (s, Err EC_DENIED)
      | Some v =>
          b <-- bit_get v i ;;
          if b then
            v' <-- bit_set v i false ;;
            u <-- set_value 0 (members s) a v' ;;
            if v' =? 0 then
              w <-- remove 0 (fst u) a ;;
              Ok (mkrs (roles s) (fst w), Ok tt)
            else Ok (mkrs (roles s) (fst u), Ok tt)
          else Ok (s, Err EC_PRE)
      end
  end.

Definition num_roles (s : rstore) : Z := len (roles s).
Definition num_members (s : rstore) : Z := len (members s).
Definition role_value (s : rstore) (a : Z) : res (option Z) := get 0 (members s) a.

(* ---------- Store: authority + restart rule ---------- *)
Record store := mkst { st_roles : rstore; st_authority : Z; st_last_slot : Z }.

Definition has_restarted (st : store) (cur : Z) : bool := negb (st_last_slot st =? cur).

(* [ra] = the RESTART_ADMIN role (RoleKey::RESTART_ADMIN with its hashed key) *)
Definition store_has_role (ra : role) (st : store) (cur : Z) (a : Z) (r : role) : res (res bool) :=
  if has_restarted st cur then
    h <-- has_role (st_roles st) a ra ;;
    match h with
    | Ok true => Ok (Ok true)
    | Ok false => Ok (Err EC_OUTDATED)
    | Err c => Ok (Err c)
    end
  else has_role (st_roles st) a r.

Definition has_admin_role (ra : role) (st : store) (cur : Z) (a : Z) : res (res bool) :=
  if st_authority st =? a then Ok (Ok true)
  else if has_restarted st cur then has_role (st_roles st) a ra
  else Ok (Ok false).

(* ---------- whole histories on a RoleStore (used by the refinement theorem) ---------- *)
Inductive rop :=
| REnable (r : role)
| RDisable (r : role)
| RGrant (a : Z) (r : role)
| RRevoke (a : Z) (r : role)
| RHas (a : Z) (r : role).

Inductive rret := RetUnit (x : res unit) | RetBool (x : res bool).

Definition rstep (s : rstore) (o : rop) : res (rstore * rret) :=
  match o with
  | REnable r => x <-- enable_role s r ;; Ok (fst x, RetUnit (snd x))
  | RDisable r => x <-- disable_role s r ;; Ok (fst x, RetUnit (snd x))
  | RGrant a r => x <-- grant s a r ;; Ok (fst x, RetUnit (snd x))
  | RRevoke a r => x <-- revoke s a r ;; Ok (fst x, RetUnit (snd x))
  | RHas a r => x <-- has_role s a r ;; Ok (s, RetBool x)
  end.

Fixpoint rrun (ops : list rop) (s : rstore) : res (list rret * rstore) :=
  match ops with
  | [] => Ok ([], s)
  | o :: r =>
      x <-- rstep s o ;;
      y <-- rrun r (fst x) ;;
      Ok (snd x :: fst y, snd y)
  end.
