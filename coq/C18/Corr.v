(* C18 — correspondence + oracle.  One case = one whole op history on one `Store`
   (its RoleStore, authority and cached last-restart slot) with the LastRestartSlot sysvar
   served by a syscall stub the history can change.

   Role keys (SHA-256 of the name) are printed as their rank in the history's key universe
   (order isomorphism; 0 is reserved for the all-zero key); addresses are small pubkeys printed
   as the big-endian integer of their 32 bytes; names are printed as byte lists.
   Codes: 0 = Ok, otherwise the anchor error numbering of Model.v; RPanic = panic. *)
From GV Require Import lib.Base C34.Model C35.Model.
From GV Require Export C18.Model.
Open Scope Z_scope.

Inductive inp :=
| IEnable (r : role)
| IDisable (r : role)
| IGrant (a : Z) (r : role)
| IRevoke (a : Z) (r : role)
| IHas (a : Z) (r : role)          (* RoleStore::has_role *)
| IIndex (r : role)                (* role_index *)
| IEIndex (r : role)               (* enabled_role_index *)
| INums                            (* num_roles, num_members *)
| IValue (a : Z)                   (* role_value *)
| ISetSlot (n : Z)                 (* the LastRestartSlot stub returns n from now on *)
| ISHas (a : Z) (r : role)         (* Store::has_role *)
| IAdmin (a : Z)                   (* Store::has_admin_role *)
| IDump.                           (* raw bytes of the RoleStore *)

Inductive out :=
| RPanic
| RCode (c : Z)
| RBool (r : res bool)
| ROptZ (r : res (option Z))
| RNums (nr nm : Z)
| RVal (o : option Z)
| RDone
| RDump (rl : list (Z * (list Z * Z * Z))) (rc : Z) (ml : list (Z * Z)) (mc : Z).

Inductive case := Hist (ra : role) (authority slot0 : Z) (h : list (inp * out)).

(* ---------- equality helpers ---------- *)
Definition rbool_eqb (a b : res bool) : bool :=
  match a, b with Ok x, Ok y => Bool.eqb x y | Err x, Err y => x =? y | _, _ => false end.
Definition roptz_eqb (a b : res (option Z)) : bool :=
  match a, b with Ok x, Ok y => oeqb x y | Err x, Err y => x =? y | _, _ => false end.
Definition meta_eqb (a : rmeta) (b : list Z * Z * Z) : bool :=
  let '(n, e, i) := b in list_eqb (rm_name a) n && (rm_enabled a =? e) && (rm_index a =? i).
Fixpoint rl_eqb (a : list (Z * rmeta)) (b : list (Z * (list Z * Z * Z))) : bool :=
  match a, b with
  | [], [] => true
  | (k, m) :: r, (k', m') :: s => (k =? k') && meta_eqb m m' && rl_eqb r s
  | _, _ => false
  end.
Fixpoint ml_eqb (a b : list (Z * Z)) : bool :=
  match a, b with
  | [], [] => true
  | (k, v) :: r, (k', v') :: s => (k =? k') && (v =? v') && ml_eqb r s
  | _, _ => false
  end.
Definition out_eqb (a b : out) : bool :=
  match a, b with
  | RPanic, RPanic => true
  | RCode x, RCode y => x =? y
  | RBool x, RBool y => rbool_eqb x y
  | ROptZ x, ROptZ y => roptz_eqb x y
  | RNums a1 a2, RNums b1 b2 => (a1 =? b1) && (a2 =? b2)
  | RVal x, RVal y => oeqb x y
  | RDone, RDone => true
  | _, _ => false
  end.

(* ---------- model run ---------- *)
Definition code_of (r : res unit) : Z := match r with Ok _ => 0 | Err e => e end.

Definition mstep (ra : role) (st : store) (cur : Z) (i : inp) (o : out) : option (store * Z) :=
  let rs := st_roles st in
  let upd (x : res (rstore * res unit)) :=
    match x with
    | Ok (rs', r) => if out_eqb (RCode (code_of r)) o then Some (mkst rs' (st_authority st) (st_last_slot st), cur) else None
    | Err _ => if out_eqb RPanic o then Some (st, cur) else None
    end in
  let same (x : out) := if out_eqb x o then Some (st, cur) else None in
  match i with
  | IEnable r => upd (enable_role rs r)
  | IDisable r => upd (disable_role rs r)
  | IGrant a r => upd (grant rs a r)
  | IRevoke a r => upd (revoke rs a r)
  | IHas a r => same (match has_role rs a r with Ok x => RBool x | Err _ => RPanic end)
  | IIndex r => same (match role_index rs r with Ok x => ROptZ x | Err _ => RPanic end)
  | IEIndex r => same (match enabled_role_index rs r with Ok x => ROptZ x | Err _ => RPanic end)
  | INums => same (RNums (num_roles rs) (num_members rs))
  | IValue a => same (match role_value rs a with Ok x => RVal x | Err _ => RPanic end)
  | ISetSlot n => match o with RDone => Some (st, n) | _ => None end
  | ISHas a r => same (match store_has_role ra st cur a r with Ok x => RBool x | Err _ => RPanic end)
  | IAdmin a => same (match has_admin_role ra st cur a with Ok x => RBool x | Err _ => RPanic end)
  | IDump =>
      match o with
      | RDump rl rc ml mc =>
          if rl_eqb (data (roles rs)) rl && (count (roles rs) =? rc)
             && ml_eqb (data (members rs)) ml && (count (members rs) =? mc)
          then Some (st, cur) else None
      | _ => None
      end
  end.

Fixpoint mrun (ra : role) (st : store) (cur : Z) (h : list (inp * out)) : bool :=
  match h with
  | [] => true
  | (i, o) :: r => match mstep ra st cur i o with Some (st', cur') => mrun ra st' cur' r | None => false end
  end.

Definition corr_b (c : case) : bool :=
  match c with Hist ra au s0 h => mrun ra (mkst rstore0 au s0) s0 h end.

(* ---------- oracle: roles as a set of grants gated by enabled roles ----------
   abstract state: the roles ever created, in creation order, each with its name and an
   enabled flag; the set of (address, role key) grants.  No bitmap, no index, no array. *)
Record ast := mka { a_roles : list (Z * list Z * bool); a_grants : list (Z * Z) }.

Definition good (n : list Z) : bool := (blen n <? 32) && negb (has_nul n).

Fixpoint find_role (l : list (Z * list Z * bool)) (k : Z) : option (list Z * bool) :=
  match l with
  | [] => None
  | (k', n, e) :: r => if k' =? k then Some (n, e) else find_role r k
  end.
Fixpoint set_enabled (l : list (Z * list Z * bool)) (k : Z) (b : bool) :=
  match l with
  | [] => []
  | (k', n, e) :: r => if k' =? k then (k', n, b) :: r else (k', n, e) :: set_enabled r k b
  end.
Definition granted (g : list (Z * Z)) (a k : Z) : bool := existsb (fun p => (fst p =? a) && (snd p =? k)) g.
Definition is_member (g : list (Z * Z)) (a : Z) : bool := existsb (fun p => fst p =? a) g.
Fixpoint distinct_addrs (g : list (Z * Z)) (seen : list Z) : Z :=
  match g with
  | [] => 0
  | (a, _) :: r => if existsb (Z.eqb a) seen then distinct_addrs r seen else 1 + distinct_addrs r (a :: seen)
  end.
Definition n_members (g : list (Z * Z)) : Z := distinct_addrs g [].
Definition remove_grant (g : list (Z * Z)) (a k : Z) := filter (fun p => negb ((fst p =? a) && (snd p =? k))) g.

(* does the stored name read back as the name the caller passed *)
Definition usable (stored given : list Z) : bool := good stored && list_eqb stored given.

(* abstract has_role: None = error, Some b = Ok b *)
Definition a_has (s : ast) (a : Z) (r : role) : option bool :=
  if is_member (a_grants s) a then
    match find_role (a_roles s) (r_key r) with
    | Some (n, e) => if usable n (r_name r) && e then Some (granted (a_grants s) a (r_key r)) else None
    | None => None
    end
  else None.

Definition is_ok (o : out) : option bool :=        (* Some true = Ok, Some false = Err, None = other *)
  match o with RCode c => Some (c =? 0) | _ => None end.

Fixpoint index_of (l : list (Z * list Z * bool)) (k : Z) (i : Z) : option Z :=
  match l with
  | [] => None
  | (k', _, _) :: r => if k' =? k then Some i else index_of r k (i + 1)
  end.

(* expected bitmap of an address: bit i set iff the i-th created role is granted *)
Fixpoint bits_of (l : list (Z * list Z * bool)) (g : list (Z * Z)) (a : Z) (i : Z) : Z :=
  match l with
  | [] => 0
  | (k, _, _) :: r => (if granted g a k then 2 ^ i else 0) + bits_of r g a (i + 1)
  end.

Fixpoint sorted_keys {A} (l : list (Z * A)) : bool :=
  match l with
  | [] => true
  | (k, _) :: r => match r with [] => true | (k', _) :: _ => (k <? k') && sorted_keys r end
  end.

Definition pad32 (n : list Z) : list Z := n ++ repeat 0 (Z.to_nat (32 - blen n)).

Definition dump_ok (s : ast) (rl : list (Z * (list Z * Z * Z))) (rc : Z) (ml : list (Z * Z)) (mc : Z) : bool :=
  let rused := firstn (Z.to_nat rc) rl in
  let mused := firstn (Z.to_nat mc) ml in
  (rc =? Z.of_nat (length (a_roles s))) && (mc =? n_members (a_grants s))
  && (Z.of_nat (length rl) =? 32) && (Z.of_nat (length ml) =? 64)
  && sorted_keys rused && sorted_keys mused
  && forallb (fun e => let '(k, (n, en, ix)) := e in (k =? 0) && list_eqb n (repeat 0 32) && (en =? 0) && (ix =? 0))
             (skipn (Z.to_nat rc) rl)
  && forallb (fun e => (fst e =? 0) && (snd e =? 0)) (skipn (Z.to_nat mc) ml)
  (* every stored role is an abstract role with the right name / flag / creation index *)
  && forallb (fun e => let '(k, (n, en, ix)) := e in
                match find_role (a_roles s) k, index_of (a_roles s) k 0 with
                | Some (nm, e'), Some i => list_eqb n (pad32 nm) && (en =? (if e' then 255 else 0)) && (ix =? i)
                | _, _ => false
                end) rused
  (* every stored member is a granted address with exactly the granted bits, never empty *)
  && forallb (fun e => let '(a, v) := e in
                is_member (a_grants s) a && negb (v =? 0) && (v =? bits_of (a_roles s) (a_grants s) a 0)) mused.

Definition ostep (ra : role) (au : Z) (last cur : Z) (s : ast) (i : inp) (o : out) : option (ast * Z) :=
  let keep := Some (s, cur) in
  let restarted := negb (last =? cur) in
  match i with
  | IEnable r =>
      match is_ok o with
      | None => None
      | Some ok =>
          if negb (good (r_name r)) then (if ok then None else keep) else      (* unreadable names are refused *)
          match find_role (a_roles s) (r_key r) with
          | Some (n, e) =>
              if usable n (r_name r) && negb e
              then (if ok then Some (mka (set_enabled (a_roles s) (r_key r) true) (a_grants s), cur) else None)
              else (if ok then None else keep)                      (* enabling an enabled role fails, no effect *)
          | None =>
              if Z.of_nat (length (a_roles s)) <? 32
              then (if ok then Some (mka (a_roles s ++ [(r_key r, r_name r, true)]) (a_grants s), cur) else None)
              else (if ok then None else keep)                      (* 33rd role refused *)
          end
      end
  | IDisable r =>
      match is_ok o with
      | None => None
      | Some ok =>
          match find_role (a_roles s) (r_key r) with
          | Some (n, e) =>
              if usable n (r_name r) && e
              then (if ok then Some (mka (set_enabled (a_roles s) (r_key r) false) (a_grants s), cur) else None)
              else (if ok then None else keep)
          | None => if ok then keep else None
          end
      end
  | IGrant a r =>
      match is_ok o with
      | None => None
      | Some ok =>
          match find_role (a_roles s) (r_key r) with
          | Some (n, e) =>
              if usable n (r_name r) && e && negb (granted (a_grants s) a (r_key r))
                 && (is_member (a_grants s) a || (n_members (a_grants s) <? 64))
              then (if ok then Some (mka (a_roles s) ((a, r_key r) :: a_grants s), cur) else None)
              else (if ok then None else keep)                      (* already held / disabled / 65th member *)
          | None => if ok then None else keep
          end
      end
  | IRevoke a r =>
      match is_ok o with
      | None => None
      | Some ok =>
          match find_role (a_roles s) (r_key r) with
          | Some (n, e) =>
              if usable n (r_name r) && granted (a_grants s) a (r_key r)      (* the role need not be enabled *)
              then (if ok then Some (mka (a_roles s) (remove_grant (a_grants s) a (r_key r)), cur) else None)
              else (if ok then None else keep)
          | None => if ok then None else keep
          end
      end
  | IHas a r =>
      match o, a_has s a r with
      | RBool (Ok b), Some b' => if Bool.eqb b b' then keep else None
      | RBool (Err _), None => keep
      | _, _ => None
      end
  | IIndex r =>
      match o, find_role (a_roles s) (r_key r) with
      | ROptZ (Ok None), None => keep
      | ROptZ (Ok (Some i)), Some (n, _) => if usable n (r_name r) && oeqb (Some i) (index_of (a_roles s) (r_key r) 0) then keep else None
      | ROptZ (Err _), Some (n, _) => if usable n (r_name r) then None else keep
      | _, _ => None
      end
  | IEIndex r =>
      match o, find_role (a_roles s) (r_key r) with
      | ROptZ (Ok None), None => keep
      | ROptZ (Ok (Some i)), Some (n, e) => if usable n (r_name r) && e && oeqb (Some i) (index_of (a_roles s) (r_key r) 0) then keep else None
      | ROptZ (Err _), Some (n, e) => if usable n (r_name r) && e then None else keep
      | _, _ => None
      end
  | INums =>
      match o with
      | RNums nr nm => if (nr =? Z.of_nat (length (a_roles s))) && (nm =? n_members (a_grants s)) then keep else None
      | _ => None
      end
  | IValue a =>
      match o with
      | RVal None => if is_member (a_grants s) a then None else keep      (* last role revoked => not a member *)
      | RVal (Some v) => if is_member (a_grants s) a && (v =? bits_of (a_roles s) (a_grants s) a 0) then keep else None
      | _ => None
      end
  | ISetSlot n => match o with RDone => Some (s, n) | _ => None end
  | ISHas a r =>
      (* after a restart only restart admins are authorised, and for every role *)
      let expect := if restarted then (match a_has s a ra with Some true => Some true | _ => None end) else a_has s a r in
      match o, expect with
      | RBool (Ok b), Some b' => if Bool.eqb b b' then keep else None
      | RBool (Err _), None => keep
      | _, _ => None
      end
  | IAdmin a =>
      let expect := if a =? au then Some true
                    else if restarted then a_has s a ra else Some false in
      match o, expect with
      | RBool (Ok b), Some b' => if Bool.eqb b b' then keep else None
      | RBool (Err _), None => keep
      | _, _ => None
      end
  | IDump =>
      match o with
      | RDump rl rc ml mc => if dump_ok s rl rc ml mc then keep else None
      | _ => None
      end
  end.

Fixpoint orun (ra : role) (au last cur : Z) (s : ast) (h : list (inp * out)) : bool :=
  match h with
  | [] => true
  | (i, o) :: r => match ostep ra au last cur s i o with Some (s', cur') => orun ra au last cur' s' r | None => false end
  end.

Definition oracle_b (c : case) : bool :=
  match c with Hist ra au s0 h => orun ra au s0 s0 (mka [] []) h end.

Definition known_b (c : case) : Z := 0.
