(* C18 — history-level refinement, membership, capacity and the restart rule. *)
From stdpp Require Import gmap.
From GV Require lib.Base C34.Model C34.Proofs C34.Refine C35.Model C18.Model C18.MapSpec C18.Proofs C18.Sim.
Import GV.lib.Base(res, Ok, Err, rbind, of_opt).
Import GV.C34.Model GV.C34.Proofs GV.C34.Refine GV.C35.Model GV.C18.Model GV.C18.MapSpec GV.C18.Proofs GV.C18.Sim.
Open Scope Z_scope.

(* the abstract machine: enabled roles + grant set; no index, no bitmap, no array *)
Definition astep (A : astate) (o : rop) : astate * rret :=
  match o with
  | REnable r => (fst (a_enable A r), RetUnit (snd (a_enable A r)))
  | RDisable r => (fst (a_disable A r), RetUnit (snd (a_disable A r)))
  | RGrant a r => (fst (a_grant A a r), RetUnit (snd (a_grant A a r)))
  | RRevoke a r => (fst (a_revoke A a r), RetUnit (snd (a_revoke A a r)))
  | RHas a r => (A, RetBool (a_has A a r))
  end.

Fixpoint arun (ops : list rop) (A : astate) : list rret * astate :=
  match ops with
  | [] => ([], A)
  | o :: r => let x := astep A o in let y := arun r (fst x) in (snd x :: fst y, snd y)
  end.

Lemma step_sim s A o : sim s A →
  ∃ s', rstep s o = Ok (s', snd (astep A o)) ∧ sim s' (fst (astep A o)).
Proof.
  intros S. destruct o as [r|r|a r|a r|a r]; cbn [rstep astep fst snd].
  - destruct (enable_sim s A r S) as (s' & E & S' & _). rewrite E. by exists s'.
  - destruct (disable_sim s A r S) as (s' & E & S' & _). rewrite E. by exists s'.
  - destruct (grant_sim s A a r S) as (s' & E & S' & _). rewrite E. by exists s'.
  - destruct (revoke_sim s A a r S) as (s' & E & S' & _). rewrite E. by exists s'.
  - rewrite (has_sim s A a r S). by exists s.
Qed.

Lemma run_sim ops : ∀ s A, sim s A →
  ∃ s', rrun ops s = Ok (fst (arun ops A), s') ∧ sim s' (snd (arun ops A)).
Proof.
  induction ops as [|o ops IH]; intros s A S.
  - by exists s.
  - destruct (step_sim s A o S) as (s1 & E1 & S1).
    destruct (IH s1 _ S1) as (s2 & E2 & S2).
    exists s2. cbn [rrun arun]. rewrite E1. cbn [rbind fst snd]. rewrite E2. done.
Qed.

(* ------------------------------------------------------------------ "holds a role" *)
Lemma grant_is_member A a k : (a, k) ∈ ag A → a ∈ amembers A.
Proof. intros H. unfold amembers. apply elem_of_map. by exists (a, k). Qed.

Lemma holds_iff A a r :
  a_has A a r = Ok true ↔
  ∃ nm, ar A !! r_key r = Some (nm, true) ∧ name_ok nm (r_name r) = true ∧ (a, r_key r) ∈ ag A.
Proof.
  unfold a_has, a_status. split.
  - case_decide as Hm; [|done].
    destruct (ar A !! r_key r) as [[nm en]|] eqn:E; [|done].
    destruct (name_ok nm (r_name r)) eqn:N; [|done]. destruct en; [|done].
    intros [= B]. apply bool_decide_eq_true in B. by exists nm.
  - intros (nm & E & N & G). rewrite decide_True by (by eapply grant_is_member).
    rewrite E, N. f_equal. by apply bool_decide_eq_true.
Qed.

(* a stored member always has at least one grant: an address whose last role is revoked
   is not a member *)
Lemma not_member s A a : sim s A → (∀ k, (a, k) ∉ ag A) →
  role_value s a = Ok None ∧ ∀ r, has_role s a r = Ok (Err EC_DENIED).
Proof.
  intros S N. pose proof S as (W & _).
  assert (Nm : a ∉ amembers A).
  { unfold amembers. rewrite elem_of_map. intros ([a' k] & -> & H). by apply (N k). }
  split.
  - unfold role_value. rewrite (ms_get 0 MAX_MEMBERS _ _ (rwf_members s W)).
    destruct (M s !! a) eqn:E; [|done]. exfalso. apply Nm. apply (sim_members s A a S). eauto.
  - intros r. rewrite (has_sim s A a r S). unfold a_has. by rewrite decide_False.
Qed.

Lemma member_count s A : sim s A → num_members s = Z.of_nat (size (amembers A)).
Proof.
  intros S. pose proof S as (W & _). unfold num_members.
  rewrite (ms_len 0 MAX_MEMBERS _ (rwf_members s W)). by rewrite (sim_members_size s A S).
Qed.

Lemma role_count s A : sim s A → num_roles s = Z.of_nat (size (ar A)).
Proof.
  intros S. pose proof S as (W & _). unfold num_roles.
  rewrite (ms_len rmeta0 MAX_ROLES _ (rwf_roles s W)). by rewrite (sim_roles_size s A S).
Qed.

(* ------------------------------------------------------------------ restart rule *)
Lemma store_has_role_spec ra st cur a r A : sim (st_roles st) A →
  store_has_role ra st cur a r =
    Ok (if has_restarted st cur then
          match a_has A a ra with Ok true => Ok true | Ok false => Err EC_OUTDATED | Err c => Err c end
        else a_has A a r).
Proof.
  intros S. unfold store_has_role. destruct (has_restarted st cur).
  - rewrite (has_sim _ A a ra S). cbn [rbind]. by destruct (a_has A a ra) as [[|]|].
  - by rewrite (has_sim _ A a r S).
Qed.

Lemma has_admin_role_spec ra st cur a A : sim (st_roles st) A →
  has_admin_role ra st cur a =
    Ok (if st_authority st =? a then Ok true
        else if has_restarted st cur then a_has A a ra else Ok false).
Proof.
  intros S. unfold has_admin_role. destruct (st_authority st =? a); [done|].
  destruct (has_restarted st cur); [|done]. by rewrite (has_sim _ A a ra S).
Qed.

Lemma authority_always_admin ra st cur : has_admin_role ra st cur (st_authority st) = Ok (Ok true).
Proof. unfold has_admin_role. by rewrite Z.eqb_refl. Qed.
