(* C18 — the fixed-map operations used by RoleStore, as finite-map equations
   (corollaries of the C34 refinement). *)
From stdpp Require Import gmap.
From GV Require lib.Base C34.Model C34.Proofs C34.Refine.
Import GV.lib.Base(res, Ok, Err, rbind, of_opt).
Import GV.C34.Model GV.C34.Proofs GV.C34.Refine.
Open Scope Z_scope.

Section MapSpec.
  Context {V : Type}.
  Variable dv : V.
  Variable cap : Z.
  Implicit Types (m : @fmap V).

  Lemma ms_get m k : wf dv cap m → get dv m k = Ok (abs m !! k).
  Proof. apply get_is_lookup. Qed.

  Lemma ms_len m : wf dv cap m → len m = Z.of_nat (size (abs m)).
  Proof. intros W. unfold len. by rewrite (abs_size dv cap m W). Qed.

  Lemma ms_set m k v old : 0 <= cap < 2 ^ 32 → wf dv cap m → abs m !! k = Some old →
    ∃ m', set_value dv m k v = Ok (m', Some old) ∧ wf dv cap m' ∧ abs m' = <[k:=v]> (abs m).
  Proof.
    intros Hc W A.
    destruct (step_refines dv cap m (OpSet k v) Hc W I) as [[P _]|(_ & m' & r & E & W' & S)]; [done|].
    simpl in E, S. destruct (set_value dv m k v) as [[m1 o]|e] eqn:Es; simpl in E; [|done].
    inversion E; subst. rewrite A in S. destruct S as [[= ->] S]. by exists m'.
  Qed.

  Lemma ms_insert_new m k v : 0 <= cap < 2 ^ 32 → wf dv cap m → abs m !! k = None →
    Z.of_nat (size (abs m)) < cap →
    ∃ m', insert_with_options dv cap m k v true = Ok (m', Ok None) ∧ wf dv cap m' ∧
          abs m' = <[k:=v]> (abs m).
  Proof.
    intros Hc W A F.
    destruct (step_refines dv cap m (OpIns k v true) Hc W I) as [[P _]|(_ & m' & r & E & W' & S)]; [done|].
    simpl in E, S. destruct (insert_with_options dv cap m k v true) as [[m1 o]|e] eqn:Es; simpl in E; [|done].
    inversion E; subst. rewrite A in S. rewrite decide_False in S by lia.
    destruct S as [[= ->] S]. by exists m'.
  Qed.

  Lemma ms_insert_full m k v : wf dv cap m → abs m !! k = None →
    cap <= Z.of_nat (size (abs m)) →
    insert_with_options dv cap m k v true = Ok (m, Err E_FULL).
  Proof.
    intros W A F. apply (full_insert_fails_unchanged dv cap); [done|done|].
    by rewrite <- (abs_size dv cap m W).
  Qed.

  Lemma ms_remove m k v : 0 <= cap < 2 ^ 32 → wf dv cap m → abs m !! k = Some v →
    ∃ m', remove dv m k = Ok (m', Some v) ∧ wf dv cap m' ∧ abs m' = delete k (abs m).
  Proof.
    intros Hc W A.
    destruct (step_refines dv cap m (OpRem k) Hc W I) as [[P _]|(_ & m' & r & E & W' & S)]; [done|].
    simpl in E, S. destruct (remove dv m k) as [[m1 o]|e] eqn:Es; simpl in E; [|done].
    inversion E; subst. rewrite A in S. destruct S as [[= ->] S]. by exists m'.
  Qed.
End MapSpec.
