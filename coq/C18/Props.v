(* C18 — role membership behaves like a set of grants gated by enabled roles.

   Concrete side: [rstore] = the two fixed maps of RoleStore (C34 model), bitmaps over role
   indices, name check through the C35 model.  Abstract side ([astate]): [ar] = role key ->
   (stored name, enabled), [ag] = set of (address, role key) grants; the abstract operations
   [a_enable / a_disable / a_grant / a_revoke / a_has] (C18/Proofs.v) mention no index, no
   bitmap and no array, only the two capacities.  [sim s A] = representation invariant +
   "A is the abstraction of s".  *)
From stdpp Require Import gmap.
From GV Require lib.Base C34.Model C34.Proofs C34.Refine C35.Model C18.Model C18.MapSpec C18.Proofs C18.Sim C18.Hist.
Import GV.lib.Base(res, Ok, Err, rbind, of_opt).
Import GV.C34.Model GV.C34.Proofs GV.C34.Refine GV.C35.Model GV.C18.Model GV.C18.MapSpec GV.C18.Proofs GV.C18.Sim GV.C18.Hist.
Open Scope Z_scope.

(* the zeroed RoleStore is the empty abstract state *)
Theorem c18_init : sim rstore0 (mkA ∅ ∅).
Proof. exact sim_zero. Qed.

(* REFINEMENT for arbitrary operation sequences (enable, disable, grant, revoke, has_role):
   the RoleStore never panics and returns exactly the results of the abstract machine,
   error codes included; the invariant is kept *)
Theorem c18_roles_refine : forall ops s A, sim s A ->
  exists s', rrun ops s = Ok (fst (arun ops A), s') /\ sim s' (snd (arun ops A)).
Proof. exact run_sim. Qed.

(* an address holds a role exactly when the role is enabled (and its stored name reads back
   as the requested name) and the grant is in the grant set *)
Theorem c18_holds_iff : forall s A a r, sim s A ->
  has_role s a r = Ok (Ok true) <->
  exists nm, ar A !! r_key r = Some (nm, true) /\ name_ok nm (r_name r) = true /\ (a, r_key r) ∈ ag A.
Proof.
  intros s A a r S. rewrite (has_sim s A a r S). rewrite <- holds_iff.
  split; [by intros [= ->] | by intros ->].
Qed.

(* every operation: result = abstract result; FAILURE WITHOUT SIDE EFFECT: when the result is
   an error the concrete store is unchanged (and the abstract state trivially so) *)
Theorem c18_enable : forall s A r, sim s A ->
  exists s', enable_role s r = Ok (s', snd (a_enable A r)) /\ sim s' (fst (a_enable A r)) /\
             (forall e, snd (a_enable A r) = Err e -> s' = s).
Proof. exact enable_sim. Qed.
Theorem c18_disable : forall s A r, sim s A ->
  exists s', disable_role s r = Ok (s', snd (a_disable A r)) /\ sim s' (fst (a_disable A r)) /\
             (forall e, snd (a_disable A r) = Err e -> s' = s).
Proof. exact disable_sim. Qed.
Theorem c18_grant : forall s A a r, sim s A ->
  exists s', grant s a r = Ok (s', snd (a_grant A a r)) /\ sim s' (fst (a_grant A a r)) /\
             (forall e, snd (a_grant A a r) = Err e -> s' = s).
Proof. exact grant_sim. Qed.
Theorem c18_revoke : forall s A a r, sim s A ->
  exists s', revoke s a r = Ok (s', snd (a_revoke A a r)) /\ sim s' (fst (a_revoke A a r)) /\
             (forall e, snd (a_revoke A a r) = Err e -> s' = s).
Proof. exact revoke_sim. Qed.

(* the three failures named by the property *)
Theorem c18_grant_held_fails : forall A a r nm, ar A !! r_key r = Some (nm, true) ->
  name_ok nm (r_name r) = true -> (a, r_key r) ∈ ag A -> a_grant A a r = (A, Err EC_PRE).
Proof.
  intros A a r nm E N G. unfold a_grant, a_status. rewrite E, N. by rewrite decide_True.
Qed.
Theorem c18_revoke_absent_fails : forall A a r, (a, r_key r) ∉ ag A ->
  exists e, a_revoke A a r = (A, Err e).
Proof.
  intros A a r G. unfold a_revoke, a_status.
  destruct (ar A !! r_key r) as [[nm en]|]; [|by eexists].
  destruct (name_ok nm (r_name r)); [|by eexists].
  case_decide; [|by eexists]. rewrite decide_False by done. by eexists.
Qed.
Theorem c18_enable_enabled_fails : forall A r nm, ar A !! r_key r = Some (nm, true) ->
  exists e, a_enable A r = (A, Err e).
Proof.
  intros A r nm E. unfold a_enable. rewrite E. destruct (name_ok nm (r_name r)); by eexists.
Qed.

(* capacities: the 33rd role and the 65th member are refused, nothing changes *)
Theorem c18_roles_capacity : forall s A r nb, sim s A -> ar A !! r_key r = None ->
  str_to_bytes NAME_LEN (r_name r) = Ok nb -> MAX_ROLES <= Z.of_nat (size (ar A)) ->
  enable_role s r = Ok (s, Err EC_FULL).
Proof.
  intros s A r nb S E N F. destruct (enable_sim s A r S) as (s' & Es & _ & U).
  unfold a_enable in *. rewrite E, N in *. rewrite decide_True in * by done.
  cbn [snd fail] in *. by rewrite (U _ eq_refl) in Es.
Qed.
Theorem c18_members_capacity : forall s A a r nm, sim s A ->
  ar A !! r_key r = Some (nm, true) -> name_ok nm (r_name r) = true ->
  a ∉ amembers A -> MAX_MEMBERS <= Z.of_nat (size (amembers A)) ->
  grant s a r = Ok (s, Err EC_FULL).
Proof.
  intros s A a r nm S E N Nm F. destruct (grant_sim s A a r S) as (s' & Es & _ & U).
  assert (Ng : (a, r_key r) ∉ ag A) by (intros H; apply Nm; by eapply grant_is_member).
  unfold a_grant, a_status in *. rewrite E, N in *.
  rewrite decide_False in * by done. rewrite decide_False in * by done. rewrite decide_True in * by done.
  cbn [snd fail] in *. by rewrite (U _ eq_refl) in Es.
Qed.

(* members = addresses with at least one grant: after the last role is revoked the address
   is no longer stored, and the counters are the abstract sizes *)
Theorem c18_revoke_last_drops_member : forall s A a, sim s A -> (forall k, (a, k) ∉ ag A) ->
  role_value s a = Ok None /\ forall r, has_role s a r = Ok (Err EC_DENIED).
Proof. exact not_member. Qed.
Theorem c18_counts : forall s A, sim s A ->
  num_roles s = Z.of_nat (size (ar A)) /\ num_members s = Z.of_nat (size (amembers A)).
Proof. intros s A S. split; [by apply role_count | by apply member_count]. Qed.

(* RESTART RULE: while the cached slot differs from the sysvar, Store::has_role ignores the
   requested role: Ok(true) exactly for holders of RESTART_ADMIN, an error for everyone else;
   otherwise it is RoleStore::has_role *)
Theorem c18_restart_only_restart_admin : forall ra st cur a r A, sim (st_roles st) A ->
  store_has_role ra st cur a r =
    Ok (if has_restarted st cur then
          match a_has A a ra with Ok true => Ok true | Ok false => Err EC_OUTDATED | Err c => Err c end
        else a_has A a r).
Proof. exact store_has_role_spec. Qed.

Theorem c18_admin : forall ra st cur a A, sim (st_roles st) A ->
  has_admin_role ra st cur a =
    Ok (if st_authority st =? a then Ok true
        else if has_restarted st cur then a_has A a ra else Ok false).
Proof. exact has_admin_role_spec. Qed.

Theorem c18_authority_always_admin : forall ra st cur,
  has_admin_role ra st cur (st_authority st) = Ok (Ok true).
Proof. exact authority_always_admin. Qed.

(* non-vacuity: a concrete history through the model *)
Example c18_ex :
  let r1 := mkrole 5 [82; 49] in let r2 := mkrole 3 [82; 50] in
  match rrun [REnable r1; REnable r2; RGrant 7 r1; RGrant 7 r1; RHas 7 r1; RDisable r1; RHas 7 r1;
              RRevoke 7 r1; RHas 7 r2; REnable r1; RHas 7 r1] rstore0 with
  | Ok (outs, s) => outs = [RetUnit (Ok tt); RetUnit (Ok tt); RetUnit (Ok tt); RetUnit (Err EC_PRE);
                            RetBool (Ok true); RetUnit (Ok tt); RetBool (Err EC_PRE); RetUnit (Ok tt);
                            RetBool (Err EC_DENIED); RetUnit (Ok tt); RetBool (Err EC_DENIED)]
                    /\ num_members s = 0 /\ num_roles s = 2
  | Err _ => False
  end.
Proof. vm_compute. repeat split; reflexivity. Qed.
