(* C42 — property theorems.  Model: the swap path search of crates/sdk/src/market_graph/mod.rs
   AS IMPLEMENTED (C42/Model.v): bellman_ford with in-place relaxation, predecessors frozen after
   max_steps rounds and distances cached at round max_steps; dfs with visited set and pruning;
   best_swap_paths with the DFS fallback; BestSwapPaths::to with the step guard.
   Graph = build ms for a market list ms (long token, short token, cost long->short, cost short->long),
   costs exact integers; [path_to] returns (distance d with reported rate exp(-d), path).
   Node indices are positions in tokens_of ms; [edge_of_market] says an edge is one direction of
   the market it names, so consecutive path markets share the traded token by [gwalk]. *)
From GV Require Import lib.Base C42.Model C42.Proofs1 C42.Proofs2 C42.Proofs3 C42.Proofs4 C42.Proofs5 C42.Proofs6.
Open Scope Z_scope.

(* path_valid + length <= max_steps + no repeated market (and no repeated token) + the reported
   rate never overstates the path (distance >= path cost), for EVERY graph, source, target, step
   limit, with or without negative cycles, Bellman-Ford or DFS.
   With Bellman-Ford (arbitrage_exists = Some false): rate_matches_cost (distance = path cost) and
   no_better_path_within_limit (no walk of <= max_steps edges is cheaper than what is reported). *)
Theorem c42_search_sound : forall ms k source skip p target d path,
  0 <= k ->
  best_swap_paths (build ms) k source skip = Ok p ->
  path_to (build ms) k source (p_state p) target = (d, path) -> path <> [] ->
  exists s t es dv,
    index_of source (toks_of ms) = Some s /\ index_of target (toks_of ms) = Some t /\ source <> target /\
    gwalk (build ms) s t es /\ map e_mkt es = path /\
    (forall e, In e es -> edge_of_market (tokens_of ms) ms e) /\
    Z.of_nat (length path) <= k /\ NoDup (walk_nodes s es) /\ NoDup path /\
    d = Some dv /\ ecost es <= dv /\
    (p_arb p = Some false ->
       dv = ecost es /\
       forall es', gwalk (build ms) s t es' -> Z.of_nat (length es') <= k -> dv <= ecost es').
Proof. exact search_sound. Qed.

(* an empty path carries no rate, except rate 1 (distance 0) for target = source *)
Theorem c42_search_empty_path : forall ms k source skip p target d,
  0 <= k ->
  best_swap_paths (build ms) k source skip = Ok p ->
  path_to (build ms) k source (p_state p) target = (d, []) ->
  d = None \/ (source = target /\ d = Some 0).
Proof. exact search_empty_path. Qed.

(* Bellman-Ford: if a walk within the limit exists but no path is reported, the distance IS known
   and the predecessor walk was cut by the step guard of `to` — the one way the
   "no better path within the limit" clause fails after Bellman-Ford (known-finding class 1) *)
Theorem c42_bf_empty_path_only_by_guard : forall ms k source p target d s t es,
  0 <= k ->
  best_swap_paths (build ms) k source false = Ok p -> p_arb p = Some false ->
  path_to (build ms) k source (p_state p) target = (d, []) ->
  index_of source (toks_of ms) = Some s -> index_of target (toks_of ms) = Some t -> source <> target ->
  gwalk (build ms) s t es -> Z.of_nat (length es) <= k ->
  (exists dv, getd (dist (p_state p)) t = Some dv /\ dv <= ecost es) /\
  walk (Z.to_nat (k + 1)) k (pred (p_state p)) (getd (pred (p_state p)) t) 0 [] = None.
Proof. exact bf_empty_path_guard. Qed.

(* the building blocks, for any well-formed graph *)
Theorem c42_bellman_ford_result : forall g s k,
  0 <= s < Z.of_nat (length (g_toks g)) ->
  (forall e, In e (g_edges g) -> 0 <= e_src e < Z.of_nat (length (g_toks g)) /\ 0 <= e_dst e < Z.of_nat (length (g_toks g))) ->
  forall source res, index_of source (g_toks g) = Some s -> bellman_ford g k source = Ok res ->
  (good g s res \/ (k < 1 /\ no_pred res)) /\ getd (dist res) s = Some 0 /\ opt g s k (dist res).
Proof. exact bellman_ford_result. Qed.

Theorem c42_dfs_result : forall g s k,
  0 <= s < Z.of_nat (length (g_toks g)) ->
  (forall e, In e (g_edges g) -> 0 <= e_src e < Z.of_nat (length (g_toks g)) /\ 0 <= e_dst e < Z.of_nat (length (g_toks g))) ->
  forall source res, 0 <= k -> index_of source (g_toks g) = Some s -> dfs g k source = Ok res ->
  good g s res /\ getd (dist res) s = Some 0.
Proof. exact dfs_result. Qed.

(* ---------- witnesses: "no better path within the limit" fails on the unchanged code ---------- *)
(* class 1: 2 -> 1 directly (market 2, cost 11) is within max_steps = 1, yet Bellman-Ford + `to`
   report no path: the in-place sweep already found 2 -> 0 -> 1 (two hops) in round 1 *)
Theorem c42_bf_step_guard_drops_path_refuted : exists ms k source target p,
  best_swap_paths (build ms) k source false = Ok p /\ p_arb p = Some false /\
  path_to (build ms) k source (p_state p) target = (None, []) /\
  exists m l s cl, nth_error ms m = Some (l, s, Some cl, None) /\ l = source /\ s = target.
Proof.
  exists [(2, 0, Some 0, Some 1); (1, 0, Some 3, Some 0); (2, 1, Some 11, None)], 1, 2, 1.
  eexists. split; [vm_compute; reflexivity|]. split; [reflexivity|]. split; [vm_compute; reflexivity|].
  exists 2%nat, 2, 1, 11. repeat split; reflexivity.
Qed.

(* class 2: DFS-only search, no negative cycle: reports cost 1 for 3 -> 1 although
   3 -> 0 -> 1 costs 4 - 6 = -2 within max_steps = 2 *)
Theorem c42_dfs_pruning_misses_path_refuted : exists ms k source target p dv,
  best_swap_paths (build ms) k source true = Ok p /\
  path_to (build ms) k source (p_state p) target = (Some dv, [3]) /\ dv = 1 /\
  (* the better route: market 0 short->long (3 -> 0, cost 4), market 1 short->long (0 -> 1, cost -6) *)
  nth_error ms 0 = Some (0, 3, Some 12, Some 4) /\ nth_error ms 1 = Some (1, 0, Some 13, Some (-6)).
Proof.
  exists [(0, 3, Some 12, Some 4); (1, 0, Some 13, Some (-6)); (2, 3, Some 5, Some 2); (1, 3, Some 5, Some 1);
          (0, 2, Some 13, Some 11); (3, 2, Some (-1), Some 5); (2, 0, Some 2, Some 5)], 2, 3, 1.
  eexists. exists 1. split; [vm_compute; reflexivity|]. split; [vm_compute; reflexivity|]. repeat split; reflexivity.
Qed.

(* ---------- non-vacuity ---------- *)
Example c42_ex_bf_path :
  exists p, best_swap_paths (build [(5, 3, Some 4, Some (-4)); (5, 5, Some 9, Some 2); (1, 3, Some 7, Some (-7)); (3, 0, Some 1, Some (-1))]) 3 1 false = Ok p
            /\ p_arb p = Some false
            /\ path_to (build [(5, 3, Some 4, Some (-4)); (5, 5, Some 9, Some 2); (1, 3, Some 7, Some (-7)); (3, 0, Some 1, Some (-1))]) 3 1 (p_state p) 0 = (Some 8, [2; 3]).
Proof. eexists. split; [vm_compute; reflexivity|]. split; vm_compute; reflexivity. Qed.

Example c42_ex_dfs_fallback :   (* negative cycle 0 -> 1 -> 0: Bellman-Ford fails, DFS answers *)
  exists p, best_swap_paths (build [(0, 1, Some (-3), Some 1); (1, 2, Some 2, Some 2)]) 3 0 false = Ok p
            /\ p_arb p = Some true
            /\ path_to (build [(0, 1, Some (-3), Some 1); (1, 2, Some 2, Some 2)]) 3 0 (p_state p) 2 = (Some (-1), [0; 1]).
Proof. eexists. split; [vm_compute; reflexivity|]. split; vm_compute; reflexivity. Qed.
