(* C42 — model of the swap path search of crates/sdk/src/market_graph/mod.rs, as implemented:
   bellman_ford (in-place relaxation rounds, predecessors written only while steps <= max_steps,
   distances cached at the end of round max_steps, negative-cycle test on the final distances),
   dfs / dfs_recursive (visited set, step limit, prune when not strictly better), best_swap_paths
   (fallback to DFS on NegativeCycle) and BestSwapPaths::to (predecessor walk with step guard).
   Definitions only.

   A graph is given the way the SDK receives it: the list of markets in insertion order,
   market k = (long token, short token, cost long->short, cost short->long); a cost is
   -ln_exchange_rate of the edge's estimation ([None] = no estimation).  Tokens and markets are
   integers; market ids are positions in the list.  Costs are integers (Decimals of scale 0, for
   which rust_decimal addition and comparison are exact).

   Hand-modelled petgraph behaviour (trusted, tied by the differential check):
   node indices are handed out in first-insertion order (long token before short token of each
   market); [node_identifiers] enumerates 0..n-1; [edges(i)] yields the outgoing edges of i
   most-recently-added first; each market adds the long->short edge, then the short->long edge. *)
From GV Require Import lib.Base.
Open Scope Z_scope.

Definition market := (Z * Z * option Z * option Z)%type.

Record edge := mkEdge { e_src : Z; e_dst : Z; e_mkt : Z; e_cost : option Z }.

(* ---------- graph construction ---------- *)
Definition memZ (x : Z) (l : list Z) : bool := existsb (Z.eqb x) l.

Fixpoint index_of_from (i : Z) (x : Z) (l : list Z) : option Z :=
  match l with
  | [] => None
  | y :: r => if x =? y then Some i else index_of_from (i + 1) x r
  end.
Definition index_of (x : Z) (l : list Z) : option Z := index_of_from 0 x l.

(* collateral tokens in node-index order *)
Definition add_tok (toks : list Z) (t : Z) : list Z := if memZ t toks then toks else toks ++ [t].
Definition tokens_of (ms : list market) : list Z :=
  fold_left (fun toks m => match m with (l, s, _, _) => add_tok (add_tok toks l) s end) ms [].

Definition ix (toks : list Z) (t : Z) : Z := match index_of t toks with Some i => i | None => -1 end.

Fixpoint edges_from (k : Z) (toks : list Z) (ms : list market) : list edge :=
  match ms with
  | [] => []
  | (l, s, cl, cs) :: r =>
      mkEdge (ix toks l) (ix toks s) k cl :: mkEdge (ix toks s) (ix toks l) k cs :: edges_from (k + 1) toks r
  end.

Record graph := mkGraph { g_toks : list Z; g_edges : list edge }.
Definition build (ms : list market) : graph :=
  let toks := tokens_of ms in mkGraph toks (edges_from 0 toks ms).

Definition node_count (g : graph) : Z := Z.of_nat (length (g_toks g)).
Definition nodes (g : graph) : list Z := map Z.of_nat (seq 0 (length (g_toks g))).

(* petgraph: outgoing edges of i, most recently added first *)
Definition out_edges (g : graph) (i : Z) : list edge :=
  rev (filter (fun e => e_src e =? i) (g_edges g)).
(* the order of "for i in node_identifiers() { for edge in edges(i) {..} }" *)
Definition edge_order (g : graph) : list edge := flat_map (out_edges g) (nodes g).

(* ---------- arrays ---------- *)
Definition getd {A} (l : list (option A)) (i : Z) : option A :=
  if i <? 0 then None else nth (Z.to_nat i) l None.
Fixpoint set_nth {A} (n : nat) (l : list A) (v : A) : list A :=
  match n, l with
  | _, [] => []
  | O, _ :: r => v :: r
  | S k, x :: r => x :: set_nth k r v
  end.
Definition setd {A} (l : list A) (i : Z) (v : A) : list A := if i <? 0 then l else set_nth (Z.to_nat i) l v.

Record state := mkState { dist : list (option Z); pred : list (option (Z * Z)) }.

Definition init_state (g : graph) (src : Z) : state :=
  let n := length (g_toks g) in
  mkState (setd (repeat None n) src (Some 0)) (repeat None n).

(* ---------- Bellman-Ford ---------- *)
(* can edge e be relaxed: cost known, tail reached, and head unreached or strictly improved *)
Definition relaxable (d : list (option Z)) (e : edge) : option Z :=
  match e_cost e with
  | None => None
  | Some w =>
      match getd d (e_src e) with
      | None => None
      | Some di =>
          match getd d (e_dst e) with
          | Some cur => if di + w <? cur then Some (di + w) else None
          | None => Some (di + w)
          end
      end
  end.

Definition relax (max_steps steps : Z) (acc : state * bool) (e : edge) : state * bool :=
  let '(st, upd) := acc in
  match relaxable (dist st) e with
  | None => acc
  | Some nd =>
      (mkState (setd (dist st) (e_dst e) (Some nd))
               (if steps <=? max_steps then setd (pred st) (e_dst e) (Some (e_src e, e_mkt e)) else pred st),
       true)
  end.

Definition bf_round (g : graph) (max_steps steps : Z) (st : state) : state * bool :=
  fold_left (relax max_steps steps) (edge_order g) (st, false).

(* for steps in 1..node_count: [fuel] rounds remain; [cached] = result_distances *)
Fixpoint bf_loop (fuel : nat) (g : graph) (max_steps steps : Z) (st : state)
         (cached : option (list (option Z))) : state * option (list (option Z)) :=
  match fuel with
  | O => (st, cached)
  | S f =>
      let '(st', upd) := bf_round g max_steps steps st in
      if negb upd then (st', cached)
      else bf_loop f g max_steps (steps + 1) st'
                   (if steps =? max_steps then Some (dist st') else cached)
  end.

Definition has_negative_cycle (g : graph) (d : list (option Z)) : bool :=
  existsb (fun e => is_some (relaxable d e)) (edge_order g).

(* Ok (distances, predecessors) | Err 1 = unknown source | Err 2 = NegativeCycle *)
Definition bellman_ford (g : graph) (max_steps source : Z) : res state :=
  match index_of source (g_toks g) with
  | None => Err 1
  | Some s =>
      let '(st, cached) := bf_loop (Z.to_nat (node_count g - 1)) g max_steps 1 (init_state g s) None in
      if has_negative_cycle g (dist st) then Err 2
      else Ok (mkState (match cached with Some c => c | None => dist st end) (pred st))
  end.

(* ---------- DFS ---------- *)
Fixpoint dfs_rec (fuel : nat) (g : graph) (max_steps : Z) (cur : Z) (distance : option Z)
         (predecessor : option (Z * Z)) (steps : Z) (visited : list Z) (st : state) : state :=
  match fuel with
  | O => st
  | S f =>
      if max_steps <? steps then st else
      match distance with
      | None => st
      | Some d =>
          if match getd (dist st) cur with Some best => best <=? d | None => false end then st
          else
            let visited' := cur :: visited in
            let st1 := mkState (setd (dist st) cur (Some d)) (setd (pred st) cur predecessor) in
            fold_left
              (fun st e =>
                 if memZ (e_dst e) visited' then st
                 else dfs_rec f g max_steps (e_dst e) (omap (fun w => w + d) (e_cost e))
                              (Some (cur, e_mkt e)) (steps + 1) visited' st)
              (out_edges g cur) st1
      end
  end.

Definition empty_state (g : graph) : state :=
  let n := length (g_toks g) in mkState (repeat None n) (repeat None n).

Definition dfs (g : graph) (max_steps source : Z) : res state :=
  match index_of source (g_toks g) with
  | None => Err 1
  | Some s => Ok (dfs_rec (Z.to_nat (max_steps + 2)) g max_steps s (Some 0) None 0 [] (empty_state g))
  end.

(* ---------- best_swap_paths ---------- *)
Record paths := mkPaths { p_state : state; p_arb : option bool }.

Definition best_swap_paths (g : graph) (max_steps source : Z) (skip_bellman_ford : bool) : res paths :=
  if skip_bellman_ford then
    st <-- dfs g max_steps source ;; Ok (mkPaths st None)
  else
    match bellman_ford g max_steps source with
    | Ok st => Ok (mkPaths st (Some false))
    | Err 2 => st <-- dfs g max_steps source ;; Ok (mkPaths st (Some true))
    | Err e => Err e
    end.

(* ---------- BestSwapPaths::to ---------- *)
(* walk the predecessors; None = step guard hit *)
Fixpoint walk (fuel : nat) (max_steps : Z) (pr : list (option (Z * Z))) (current : option (Z * Z))
         (steps : Z) (path : list Z) : option (list Z) :=
  match current with
  | None => Some path
  | Some (p, m) =>
      match fuel with
      | O => None
      | S f =>
          if max_steps <? steps + 1 then None
          else walk f max_steps pr (getd pr p) (steps + 1) (m :: path)
      end
  end.

(* (distance whose exp(-d) is the reported rate, path as market ids from source to target) *)
Definition path_to (g : graph) (max_steps source : Z) (st : state) (target : Z) : option Z * list Z :=
  match index_of target (g_toks g) with
  | None => (None, [])
  | Some t =>
      let distance := getd (dist st) t in
      if source =? target then (distance, [])
      else
        match walk (Z.to_nat (max_steps + 1)) max_steps (pred st) (getd (pred st) t) 0 [] with
        | None => (None, [])
        | Some path => (match path with [] => None | _ => distance end, path)
        end
  end.
