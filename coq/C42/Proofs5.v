(* C42 — graphs built from a market list are well formed; what BestSwapPaths::to returns. *)
From GV Require Import lib.Base C42.Model C42.Proofs1 C42.Proofs2 C42.Proofs3 C42.Proofs4.
Open Scope Z_scope.

(* ---------- index_of ---------- *)
Lemma index_of_from_some i x l r : index_of_from i x l = Some r ->
  i <= r < i + Z.of_nat (length l) /\ nth (Z.to_nat (r - i)) l (x + 1) = x.
Proof.
  revert i. induction l as [|y l IH]; intros i H; [discriminate|]. cbn in H.
  destruct (x =? y) eqn:E.
  - apply Z.eqb_eq in E. inversion H; subst. rewrite Z.sub_diag. cbn [length]. split; [lia | reflexivity].
  - apply IH in H. destruct H as [H1 H2]. cbn [length]. split; [lia|].
    replace (Z.to_nat (r - i)) with (S (Z.to_nat (r - (i + 1)))) by lia. exact H2.
Qed.

Lemma index_of_from_in i x l : In x l -> exists r, index_of_from i x l = Some r.
Proof.
  revert i. induction l as [|y l IH]; intros i H; [destruct H|]. cbn.
  destruct (x =? y) eqn:E; [eexists; reflexivity|].
  apply Z.eqb_neq in E. destruct H as [H|H]; [congruence | apply IH; exact H].
Qed.

Lemma index_of_range x l r : index_of x l = Some r -> 0 <= r < Z.of_nat (length l).
Proof. intros H. apply index_of_from_some in H. lia. Qed.

Lemma ix_range toks t : In t toks -> 0 <= ix toks t < Z.of_nat (length toks).
Proof.
  intros H. unfold ix. destruct (index_of_from_in 0 t toks H) as [r Hr]. unfold index_of. rewrite Hr.
  apply index_of_from_some in Hr. lia.
Qed.

(* ---------- tokens_of ---------- *)
Lemma add_tok_incl toks t x : In x toks -> In x (add_tok toks t).
Proof. unfold add_tok. destruct (memZ t toks); [auto | intros; apply in_or_app; auto]. Qed.

Lemma add_tok_in toks t : In t (add_tok toks t).
Proof.
  unfold add_tok. destruct (memZ t toks) eqn:E.
  - unfold memZ in E. apply existsb_exists in E. destruct E as [y [H E]]. apply Z.eqb_eq in E. subst. exact H.
  - apply in_or_app. right. left. reflexivity.
Qed.

Lemma tokens_fold_incl ms : forall toks x, In x toks ->
  In x (fold_left (fun toks (m : market) => match m with (l, s, _, _) => add_tok (add_tok toks l) s end) ms toks).
Proof.
  induction ms as [|[[[l s] cl] cs] ms IH]; intros toks x H; [exact H|]. cbn [fold_left].
  apply IH. apply add_tok_incl. apply add_tok_incl. exact H.
Qed.

Lemma tokens_of_in ms l s cl cs : In (l, s, cl, cs) ms -> In l (tokens_of ms) /\ In s (tokens_of ms).
Proof.
  unfold tokens_of. generalize (@nil Z). induction ms as [|m ms IH]; intros toks H; [destruct H|].
  cbn [fold_left]. destruct H as [H|H].
  - subst m. split; apply tokens_fold_incl; [apply add_tok_incl|]; apply add_tok_in.
  - destruct m as [[[l' s'] cl'] cs']. apply IH. exact H.
Qed.

(* ---------- edges of a built graph ---------- *)
(* every edge is one of the two directions of the market it names *)
Definition edge_of_market (toks : list Z) (ms : list market) (e : edge) : Prop :=
  exists l s cl cs, nth_error ms (Z.to_nat (e_mkt e)) = Some (l, s, cl, cs) /\ 0 <= e_mkt e /\
    ((e_src e = ix toks l /\ e_dst e = ix toks s /\ e_cost e = cl) \/
     (e_src e = ix toks s /\ e_dst e = ix toks l /\ e_cost e = cs)).

Lemma edges_from_spec toks ms : forall k0 e, 0 <= k0 -> In e (edges_from k0 toks ms) ->
  exists l s cl cs, nth_error ms (Z.to_nat (e_mkt e - k0)) = Some (l, s, cl, cs) /\ k0 <= e_mkt e /\
    ((e_src e = ix toks l /\ e_dst e = ix toks s /\ e_cost e = cl) \/
     (e_src e = ix toks s /\ e_dst e = ix toks l /\ e_cost e = cs)).
Proof.
  induction ms as [|[[[l s] cl] cs] ms IH]; intros k0 e Hk H; [destruct H|].
  cbn [edges_from] in H. destruct H as [H | [H | H]].
  - subst e. cbn. exists l, s, cl, cs. rewrite Z.sub_diag. cbn. split; [reflexivity|]. split; [lia|]. left. auto.
  - subst e. cbn. exists l, s, cl, cs. rewrite Z.sub_diag. cbn. split; [reflexivity|]. split; [lia|]. right. auto.
  - destruct (IH (k0 + 1) e ltac:(lia) H) as [l' [s' [cl' [cs' [Hn [Hk' Hd]]]]]].
    exists l', s', cl', cs'. split; [|split; [lia | exact Hd]].
    replace (Z.to_nat (e_mkt e - k0)) with (S (Z.to_nat (e_mkt e - (k0 + 1)))) by lia. exact Hn.
Qed.

Lemma build_edges ms e : In e (g_edges (build ms)) -> edge_of_market (tokens_of ms) ms e.
Proof.
  intros H. cbn in H. destruct (edges_from_spec _ _ 0 e ltac:(lia) H) as [l [s [cl [cs [Hn [Hk Hd]]]]]].
  rewrite Z.sub_0_r in Hn. exists l, s, cl, cs. auto.
Qed.

Lemma build_wf ms e : In e (g_edges (build ms)) ->
  0 <= e_src e < Z.of_nat (length (g_toks (build ms))) /\ 0 <= e_dst e < Z.of_nat (length (g_toks (build ms))).
Proof.
  intros H. destruct (build_edges ms e H) as [l [s [cl [cs [Hn [_ Hd]]]]]].
  apply nth_error_In in Hn. destruct (tokens_of_in _ _ _ _ _ Hn) as [Hl Hs]. cbn [build g_toks].
  pose proof (ix_range _ _ Hl). pose proof (ix_range _ _ Hs).
  destruct Hd as [[-> [-> _]] | [-> [-> _]]]; auto.
Qed.

(* two edges naming the same market join the same pair of nodes *)
Definition mkt_pair (g : graph) : Prop :=
  forall e e', In e (g_edges g) -> In e' (g_edges g) -> e_mkt e = e_mkt e' ->
    (e_src e = e_src e' /\ e_dst e = e_dst e') \/ (e_src e = e_dst e' /\ e_dst e = e_src e').

Lemma build_mkt_pair ms : mkt_pair (build ms).
Proof.
  intros e e' H H' E.
  destruct (build_edges ms e H) as [l [s [cl [cs [Hn [_ Hd]]]]]].
  destruct (build_edges ms e' H') as [l' [s' [cl' [cs' [Hn' [_ Hd']]]]]].
  rewrite E in Hn. rewrite Hn in Hn'. inversion Hn'; subst.
  destruct Hd as [[A [B _]] | [A [B _]]], Hd' as [[A' [B' _]] | [A' [B' _]]]; rewrite A, B, A', B'; auto.
Qed.

(* ---------- no market twice on a walk with distinct nodes ---------- *)
Lemma NoDup_app_snoc {A} (l : list A) x : NoDup l -> ~ In x l -> NoDup (l ++ [x]).
Proof.
  induction l as [|y l IH]; intros Hn Hx; cbn; [constructor; [intros []|constructor]|].
  inversion Hn; subst. constructor.
  - intros H. apply in_app_or in H. destruct H as [H | [H | []]]; [contradiction | subst; apply Hx; left; reflexivity].
  - apply IH; [assumption | intros H; apply Hx; right; exact H].
Qed.

Lemma walk_nodes_snoc u es e : walk_nodes u (es ++ [e]) = walk_nodes u es ++ [e_dst e].
Proof. unfold walk_nodes. rewrite map_app. reflexivity. Qed.

Lemma gwalk_nodes g u v es : gwalk g u v es ->
  In v (walk_nodes u es) /\
  (forall e, In e es -> In (e_src e) (walk_nodes u es) /\ In (e_dst e) (walk_nodes u es)).
Proof.
  induction 1 as [u | u i es e Hw [IH1 IH2] Hin Hsrc Hc].
  - split; [left; reflexivity | intros e []].
  - rewrite walk_nodes_snoc. split; [apply in_or_app; right; left; reflexivity|].
    intros e0 H0. apply in_app_or in H0. destruct H0 as [H0 | [H0 | []]].
    + destruct (IH2 _ H0) as [A B]. split; apply in_or_app; left; assumption.
    + subst e0. split; apply in_or_app; [left; rewrite Hsrc; exact IH1 | right; left; reflexivity].
Qed.

Lemma gwalk_nodup_markets g u v es : mkt_pair g -> gwalk g u v es ->
  NoDup (walk_nodes u es) -> NoDup (map e_mkt es).
Proof.
  intros Hmp. induction 1 as [u | u i es e Hw IH Hin Hsrc Hc]; intros Hnd; [constructor|].
  rewrite walk_nodes_snoc in Hnd. rewrite map_app. cbn [map].
  pose proof (NoDup_remove_1 _ _ _ Hnd) as Hnd'. rewrite app_nil_r in Hnd'.
  pose proof (NoDup_remove_2 _ _ _ Hnd) as Hnew. rewrite app_nil_r in Hnew.
  apply NoDup_app_snoc; [apply IH; exact Hnd'|].
  intros Hm. apply in_map_iff in Hm. destruct Hm as [e' [Em He']].
  destruct (gwalk_nodes _ _ _ _ Hw) as [_ Hn]. destruct (Hn _ He') as [A B].
  assert (Hin' : In e' (g_edges g)).
  { clear - Hw He'. induction Hw as [|u0 i0 es0 e0 Hw0 IH0 Hin0]; [destruct He'|].
    apply in_app_or in He'. destruct He' as [X | [X | []]]; [auto | subst; exact Hin0]. }
  destruct (Hmp e' e Hin' Hin Em) as [[_ X] | [X _]]; [rewrite X in B | rewrite X in A]; contradiction.
Qed.
