(* C42 — DFS as implemented: the (distances, predecessors) pair it returns is [good], the
   source keeps distance 0. *)
From GV Require Import lib.Base C42.Model C42.Proofs1 C42.Proofs2 C42.Proofs3.
Open Scope Z_scope.

Section DFS.
  Variable g : graph.
  Variable s : Z.
  Variable k : Z.
  Let n := Z.of_nat (length (g_toks g)).
  Hypothesis Hs : 0 <= s < n.
  Hypothesis Hwf : forall e, In e (g_edges g) -> 0 <= e_src e < n /\ 0 <= e_dst e < n.

  Lemma memZ_in x l : memZ x l = true <-> In x l.
  Proof.
    unfold memZ. rewrite existsb_exists. split.
    - intros [y [H E]]. apply Z.eqb_eq in E. subst. exact H.
    - intros H. exists x. split; [exact H | apply Z.eqb_refl].
  Qed.

  Lemma out_edges_in i e : In e (out_edges g i) -> In e (g_edges g) /\ e_src e = i.
  Proof.
    unfold out_edges. intros H. apply in_rev in H. apply filter_In in H. destruct H as [H E].
    apply Z.eqb_eq in E. auto.
  Qed.

  (* nodes in [vis] are untouched *)
  Definition frame (vis : list Z) (st st' : state) : Prop :=
    forall v, In v vis -> getd (dist st') v = getd (dist st) v /\ getd (pred st') v = getd (pred st) v.

  Definition post (vis : list Z) (st st' : state) : Prop :=
    lenst g st' /\ good g s st' /\ dle (dist st) (dist st') /\ frame vis st st'.

  Lemma post_refl vis st : lenst g st -> good g s st -> post vis st st.
  Proof. intros A B. split; [exact A|]. split; [exact B|]. split; [apply (dle_refl g s Hs Hwf)|]. intros v _. auto. Qed.

  Lemma post_trans vis st1 st2 st3 : post vis st1 st2 -> post vis st2 st3 -> post vis st1 st3.
  Proof.
    intros [_ [_ [D1 F1]]] [A [B [D2 F2]]]. split; [exact A|]. split; [exact B|].
    split; [eapply (dle_trans g s Hs Hwf); eassumption|].
    intros v Hv. destruct (F1 v Hv) as [X1 Y1]. destruct (F2 v Hv) as [X2 Y2]. split; congruence.
  Qed.

  (* what a call may assume about its arguments *)
  Definition pre (cur : Z) (distance : option Z) (predecessor : option (Z * Z)) (vis : list Z) (st : state) : Prop :=
    forall d, distance = Some d ->
      match predecessor with
      | None => cur = s
      | Some (p, m) => In p vis /\
          exists e w a, In e (g_edges g) /\ e_src e = p /\ e_dst e = cur /\ e_mkt e = m /\
                        e_cost e = Some w /\ getd (dist st) p = Some a /\ a + w <= d
      end.

  Definition rec_ok (f : nat) : Prop :=
    forall cur distance predecessor steps vis st,
      lenst g st -> good g s st -> 0 <= cur < n -> ~ In cur vis -> pre cur distance predecessor vis st ->
      post vis st (dfs_rec f g k cur distance predecessor steps vis st).

  (* the loop over the outgoing edges of [cur] *)
  Lemma fold_ok f : rec_ok f -> forall l cur d steps vis st,
    (forall e, In e l -> In e (g_edges g) /\ e_src e = cur) ->
    In cur vis -> lenst g st -> good g s st -> getd (dist st) cur = Some d ->
    post vis st
      (fold_left (fun st e => if memZ (e_dst e) vis then st
                              else dfs_rec f g k (e_dst e) (omap (fun w => w + d) (e_cost e))
                                           (Some (cur, e_mkt e)) (steps + 1) vis st) l st).
  Proof.
    intros Hrec l. induction l as [|e l IH]; intros cur d steps vis st Hl Hcur Hlen Hgood Hd.
    - cbn. apply post_refl; assumption.
    - cbn [fold_left].
      destruct (Hl e (or_introl eq_refl)) as [Hin Hsrc].
      assert (Hl' : forall e0, In e0 l -> In e0 (g_edges g) /\ e_src e0 = cur) by (intros; apply Hl; right; assumption).
      destruct (memZ (e_dst e) vis) eqn:Em.
      + apply IH; assumption.
      + assert (Hnot : ~ In (e_dst e) vis) by (intros H; apply memZ_in in H; congruence).
        assert (Hp : post vis st (dfs_rec f g k (e_dst e) (omap (fun w => w + d) (e_cost e))
                                          (Some (cur, e_mkt e)) (steps + 1) vis st)).
        { apply Hrec; auto; [apply (Hwf e Hin)|].
          intros d' Hd'. split; [exact Hcur|]. destruct (e_cost e) as [w|] eqn:Ew; [|discriminate].
          cbn in Hd'. inversion Hd'; subst d'. exists e, w, d. repeat split; auto. lia. }
        eapply post_trans; [exact Hp|].
        destruct Hp as [A [B [C F]]].
        apply IH; auto. destruct (F cur Hcur) as [X _]. congruence.
  Qed.

  Lemma rec_ok_all f : rec_ok f.
  Proof.
    induction f as [|f IHf]; intros cur distance predecessor steps vis st Hlen Hgood Hcur Hnv Hpre.
    - cbn. apply post_refl; assumption.
    - cbn [dfs_rec]. destruct (k <? steps); [apply post_refl; assumption|].
      destruct distance as [d|]; [|apply post_refl; assumption].
      destruct (match getd (dist st) cur with Some best => best <=? d | None => false end) eqn:Epr;
        [apply post_refl; assumption|].
      set (st1 := mkState (setd (dist st) cur (Some d)) (setd (pred st) cur predecessor)).
      destruct Hlen as [Hl1 Hl2]. pose proof Hl1 as Hl1'. unfold lend in Hl1'. fold n in Hl1'.
      destruct Hgood as [Hpe Hrp].
      assert (Hgd : forall j, getd (dist st1) j = if j =? cur then Some d else getd (dist st) j).
      { intros j. cbn [st1 dist]. destruct (j =? cur) eqn:Ej; [apply Z.eqb_eq in Ej; subst j; apply getd_setd_eq; lia|].
        apply Z.eqb_neq in Ej. apply getd_setd_neq. congruence. }
      assert (Hgp : forall j, getd (pred st1) j = if j =? cur then predecessor else getd (pred st) j).
      { intros j. cbn [st1 pred]. destruct (j =? cur) eqn:Ej; [apply Z.eqb_eq in Ej; subst j; apply getd_setd_eq; lia|].
        apply Z.eqb_neq in Ej. apply getd_setd_neq. congruence. }
      assert (Hbest : forall best, getd (dist st) cur = Some best -> d < best).
      { intros best Hb. rewrite Hb in Epr. apply Z.leb_gt in Epr. exact Epr. }
      assert (Hlen1 : lenst g st1).
      { split; cbn [st1 dist pred]; [unfold lend|]; rewrite setd_length; assumption. }
      assert (Hgood1 : good g s st1).
      { split.
        - intros j i m Hj. rewrite Hgp in Hj. destruct (j =? cur) eqn:Ej.
          + apply Z.eqb_eq in Ej. subst j. subst predecessor.
            destruct (Hpre d eq_refl) as [Hiv [e [w [a [Hin [Hsrc [Hdst [Hm [Hw [Ha Haw]]]]]]]]]].
            assert (i <> cur) by (intros ->; contradiction).
            exists e, w, a, d. rewrite !Hgd, Z.eqb_refl.
            replace (i =? cur) with false by (symmetry; apply Z.eqb_neq; assumption).
            repeat split; auto.
          + apply Z.eqb_neq in Ej.
            destruct (Hpe _ _ _ Hj) as [e' [w' [a [b [Hin' [Hs' [Hd' [Hm' [Hw' [Ha [Hb Hab]]]]]]]]]]].
            exists e', w'. rewrite !Hgd.
            replace (j =? cur) with false by (symmetry; apply Z.eqb_neq; exact Ej).
            destruct (i =? cur) eqn:Ei.
            * apply Z.eqb_eq in Ei. exists d, b. repeat split; auto.
              rewrite Ei in Ha. specialize (Hbest _ Ha). lia.
            * exists a, b. repeat split; auto.
        - intros j a Hj. rewrite Hgd in Hj. rewrite Hgp. destruct (j =? cur) eqn:Ej.
          + apply Z.eqb_eq in Ej. subst j. destruct predecessor as [[p m]|]; [right; discriminate|].
            left. exact (Hpre d eq_refl).
          + eapply Hrp; eassumption. }
      assert (Hp1 : post vis st st1).
      { split; [exact Hlen1|]. split; [exact Hgood1|]. split.
        - intros j a Hj. rewrite Hgd. destruct (j =? cur) eqn:Ej.
          + apply Z.eqb_eq in Ej. subst j. exists d. split; [reflexivity|]. specialize (Hbest _ Hj). lia.
          + exists a. split; [exact Hj | lia].
        - intros v Hv. rewrite Hgd, Hgp.
          replace (v =? cur) with false by (symmetry; apply Z.eqb_neq; intros ->; contradiction). auto. }
      eapply post_trans; [exact Hp1|].
      (* the fold runs with cur added to the visited set; its frame covers [vis] as well *)
      assert (Hf : post (cur :: vis) st1
        (fold_left (fun st e => if memZ (e_dst e) (cur :: vis) then st
                                else dfs_rec f g k (e_dst e) (omap (fun w => w + d) (e_cost e))
                                             (Some (cur, e_mkt e)) (steps + 1) (cur :: vis) st)
                   (out_edges g cur) st1)).
      { apply fold_ok; auto; [apply out_edges_in | left; reflexivity | rewrite Hgd, Z.eqb_refl; reflexivity]. }
      destruct Hf as [A [B [C F]]]. split; [exact A|]. split; [exact B|]. split; [exact C|].
      intros v Hv. apply F. right. exact Hv.
  Qed.

  (* ---------- what dfs returns ---------- *)
  Lemma empty_lenst : lenst g (empty_state g).
  Proof. unfold empty_state, lenst, lend. cbn [dist pred]. rewrite !repeat_length. split; reflexivity. Qed.

  Lemma empty_good : good g s (empty_state g).
  Proof.
    split.
    - intros j i m H. unfold empty_state in H. cbn [pred] in H. rewrite getd_repeat_none in H. discriminate.
    - intros j a H. unfold empty_state in H. cbn [dist] in H. rewrite getd_repeat_none in H. discriminate.
  Qed.

  Theorem dfs_result source res : 0 <= k ->
    index_of source (g_toks g) = Some s ->
    dfs g k source = Ok res ->
    good g s res /\ getd (dist res) s = Some 0.
  Proof.
    intros Hk Hix H. unfold dfs in H. rewrite Hix in H. inversion H; subst res. clear H.
    destruct (Z.to_nat (k + 2)) as [|f] eqn:Ef; [lia|].
    cbn [dfs_rec]. replace (k <? 0) with false by (symmetry; apply Z.ltb_ge; lia).
    assert (E0 : getd (dist (empty_state g)) s = None) by (cbn; apply getd_repeat_none).
    rewrite E0.
    set (st1 := mkState (setd (dist (empty_state g)) s (Some 0)) (setd (pred (empty_state g)) s None)).
    assert (Hl0 : Z.of_nat (length (dist (empty_state g))) = n) by (cbn; rewrite repeat_length; reflexivity).
    assert (Hp0 : Z.of_nat (length (pred (empty_state g))) = n) by (cbn; rewrite repeat_length; reflexivity).
    assert (Hgd : forall j, getd (dist st1) j = if j =? s then Some 0 else None).
    { intros j. cbn [st1 dist]. destruct (j =? s) eqn:Ej; [apply Z.eqb_eq in Ej; subst j; apply getd_setd_eq; lia|].
      apply Z.eqb_neq in Ej. rewrite getd_setd_neq by congruence. cbn. apply getd_repeat_none. }
    assert (Hgp : forall j, getd (pred st1) j = None).
    { intros j. cbn [st1 pred]. destruct (Z.eq_dec j s) as [->|Hne]; [apply getd_setd_eq; lia|].
      rewrite getd_setd_neq by congruence. cbn. apply getd_repeat_none. }
    assert (Hlen1 : lenst g st1).
    { split; cbn [st1 dist pred]; [unfold lend|]; rewrite setd_length; assumption. }
    assert (Hgood1 : good g s st1).
    { split.
      - intros j i m Hj. rewrite Hgp in Hj. discriminate.
      - intros j a Hj. rewrite Hgd in Hj. destruct (j =? s) eqn:E; [|discriminate]. apply Z.eqb_eq in E. auto. }
    pose proof (fold_ok f (rec_ok_all f) (out_edges g s) s 0 0 [s] st1 (out_edges_in s)
                        (or_introl eq_refl) Hlen1 Hgood1 ltac:(rewrite Hgd, Z.eqb_refl; reflexivity)) as [A [B [C F]]].
    split; [exact B|].
    destruct (F s (or_introl eq_refl)) as [X _]. rewrite X, Hgd, Z.eqb_refl. reflexivity.
  Qed.
End DFS.
