(* C42 — Bellman-Ford as implemented: distance-level facts (monotonicity, optimality within r
   rounds, feasibility when no edge can be relaxed, realisation by walks). *)
From GV Require Import lib.Base C42.Model C42.Proofs1.
Open Scope Z_scope.

Section BF.
  Variable g : graph.
  Variable s : Z.
  Let n := Z.of_nat (length (g_toks g)).
  Hypothesis Hs : 0 <= s < n.
  Hypothesis Hwf : forall e, In e (g_edges g) -> 0 <= e_src e < n /\ 0 <= e_dst e < n.
  (* every lemma of this section takes (g s Hs Hwf), whether its proof needs them or not *)
  Set Default Proof Using "Hs Hwf".

  Definition lend (d : list (option Z)) : Prop := Z.of_nat (length d) = n.

  (* ---------- edge_order lists exactly the edges ---------- *)
  Lemma in_edge_order e : In e (edge_order g) <-> In e (g_edges g).
  Proof.
    unfold edge_order, out_edges, nodes. rewrite in_flat_map. split.
    - intros [i [_ H]]. apply in_rev in H. apply filter_In in H. tauto.
    - intros H. exists (e_src e). split.
      + apply in_map_iff. exists (Z.to_nat (e_src e)). destruct (Hwf e H) as [H1 _]. split; [lia|].
        apply in_seq. unfold n in H1. lia.
      + apply -> in_rev. apply filter_In. split; [exact H | apply Z.eqb_refl].
  Qed.

  (* ---------- relaxation on the distance vector ---------- *)
  Definition relax_d (d : list (option Z)) (e : edge) : list (option Z) :=
    match relaxable d e with Some nd => setd d (e_dst e) (Some nd) | None => d end.

  Lemma relax_dist k steps st u e : dist (fst (relax k steps (st, u) e)) = relax_d (dist st) e.
  Proof. unfold relax, relax_d. destruct (relaxable (dist st) e); reflexivity. Qed.

  Lemma fold_relax_dist k steps l : forall st u,
    dist (fst (fold_left (relax k steps) l (st, u))) = fold_left relax_d l (dist st).
  Proof.
    induction l as [|e l IH]; intros st u; [reflexivity|]. cbn [fold_left].
    destruct (relax k steps (st, u) e) as [st' u'] eqn:E.
    rewrite IH. f_equal. pose proof (relax_dist k steps st u e) as H. rewrite E in H. exact H.
  Qed.

  Lemma relax_d_len d e : lend d -> lend (relax_d d e).
  Proof. unfold relax_d, lend. destruct (relaxable d e); [rewrite setd_length|]; auto. Qed.

  Lemma fold_relax_d_len l : forall d, lend d -> lend (fold_left relax_d l d).
  Proof. induction l; intros d H; cbn; auto using relax_d_len. Qed.

  (* d' is pointwise at least as good as d *)
  Definition dle (d d' : list (option Z)) : Prop :=
    forall j a, getd d j = Some a -> exists b, getd d' j = Some b /\ b <= a.

  Lemma dle_refl d : dle d d.
  Proof. intros j a H. exists a. split; [exact H | lia]. Qed.
  Lemma dle_trans d1 d2 d3 : dle d1 d2 -> dle d2 d3 -> dle d1 d3.
  Proof.
    intros H1 H2 j a H. destruct (H1 _ _ H) as [b [Hb Hab]]. destruct (H2 _ _ Hb) as [c [Hc Hbc]].
    exists c. split; [exact Hc | lia].
  Qed.

  Lemma relaxable_some d e nd : relaxable d e = Some nd ->
    exists w di, e_cost e = Some w /\ getd d (e_src e) = Some di /\ nd = di + w /\
                 (forall cur, getd d (e_dst e) = Some cur -> nd < cur).
  Proof.
    unfold relaxable. destruct (e_cost e) as [w|]; [|discriminate].
    destruct (getd d (e_src e)) as [di|]; [|discriminate].
    destruct (getd d (e_dst e)) as [cur|] eqn:Ec.
    - destruct (di + w <? cur) eqn:El; [|discriminate]. apply Z.ltb_lt in El.
      intros H; inversion H; subst. exists w, di. repeat split; auto. intros c Hc. inversion Hc; subst. exact El.
    - intros H; inversion H; subst. exists w, di. repeat split; auto. discriminate.
  Qed.

  Lemma relaxable_none d e w di : relaxable d e = None -> e_cost e = Some w -> getd d (e_src e) = Some di ->
    exists cur, getd d (e_dst e) = Some cur /\ cur <= di + w.
  Proof.
    unfold relaxable. intros H Hw Hd. rewrite Hw, Hd in H.
    destruct (getd d (e_dst e)) as [cur|]; [|discriminate].
    destruct (di + w <? cur) eqn:El; [discriminate|]. apply Z.ltb_ge in El. exists cur. auto.
  Qed.

  Lemma relax_d_mono d e : lend d -> In e (g_edges g) -> dle d (relax_d d e).
  Proof.
    intros Hl Hin j a Hj. unfold relax_d. destruct (relaxable d e) as [nd|] eqn:E; [|exists a; split; [auto|lia]].
    destruct (relaxable_some _ _ _ E) as [w [di [Hw [Hd [Hnd Hlt]]]]].
    destruct (Z.eq_dec j (e_dst e)) as [->|Hne].
    - rewrite getd_setd_eq by (destruct (Hwf e Hin); unfold lend in Hl; lia).
      exists nd. split; [reflexivity|]. specialize (Hlt _ Hj). lia.
    - rewrite getd_setd_neq by congruence. exists a. split; [auto|lia].
  Qed.

  Lemma fold_relax_d_mono l : forall d, lend d -> (forall e, In e l -> In e (g_edges g)) ->
    dle d (fold_left relax_d l d).
  Proof.
    induction l as [|e l IH]; intros d Hl Hin; [apply dle_refl|]. cbn [fold_left].
    eapply dle_trans; [apply relax_d_mono; [exact Hl | apply Hin; left; reflexivity]|].
    apply IH; [apply relax_d_len; exact Hl | intros; apply Hin; right; assumption].
  Qed.

  (* right after an edge is processed its head is within tail + cost *)
  Lemma relax_d_after d e w a : lend d -> In e (g_edges g) -> e_cost e = Some w ->
    getd d (e_src e) = Some a ->
    exists b, getd (relax_d d e) (e_dst e) = Some b /\ b <= a + w.
  Proof.
    intros Hl Hin Hw Ha. unfold relax_d. destruct (relaxable d e) as [nd|] eqn:E.
    - destruct (relaxable_some _ _ _ E) as [w' [di [Hw' [Hd [Hnd _]]]]].
      rewrite Hw in Hw'. inversion Hw'; subst w'. rewrite Ha in Hd. inversion Hd; subst di.
      rewrite getd_setd_eq by (destruct (Hwf e Hin); unfold lend in Hl; lia).
      exists nd. split; [reflexivity | lia].
    - destruct (relaxable_none _ _ _ _ E Hw Ha) as [cur [Hc Hle]]. exists cur. auto.
  Qed.

  (* ---------- optimality within r edges ---------- *)
  Definition opt (r : Z) (d : list (option Z)) : Prop :=
    forall j es, gwalk g s j es -> Z.of_nat (length es) <= r ->
      exists b, getd d j = Some b /\ b <= ecost es.

  Lemma opt_mono r d d' : opt r d -> dle d d' -> opt r d'.
  Proof.
    intros Ho Hd j es Hw Hl. destruct (Ho _ _ Hw Hl) as [b [Hb Hle]].
    destruct (Hd _ _ Hb) as [c [Hc Hcb]]. exists c. split; [exact Hc | lia].
  Qed.

  Lemma round_opt r d : 0 <= r -> lend d -> opt r d -> opt (r + 1) (fold_left relax_d (edge_order g) d).
  Proof.
    intros Hr0 Hl Ho j es Hw Hlen.
    assert (Hall : forall e, In e (edge_order g) -> In e (g_edges g)) by (intros e; apply in_edge_order).
    inversion Hw as [u | u i es' e Hw' Hin Hsrc Hcost]; subst.
    - (* empty walk *)
      eapply opt_mono; [exact Ho | apply fold_relax_d_mono; assumption | exact Hw | cbn; cbn in Hlen; lia].
    - rewrite app_length in Hlen. cbn in Hlen.
      destruct (Ho _ _ Hw' ltac:(lia)) as [a [Ha Hale]].
      destruct (e_cost e) as [w|] eqn:Ew; [|congruence].
      pose proof (proj2 (in_edge_order e) Hin) as Hin'.
      apply in_split in Hin'. destruct Hin' as [l1 [l2 El]]. rewrite El in *.
      rewrite fold_left_app. cbn [fold_left].
      set (d1 := fold_left relax_d l1 d).
      assert (Hl1 : lend d1) by (apply fold_relax_d_len; exact Hl).
      assert (Hm1 : dle d d1).
      { apply fold_relax_d_mono; [exact Hl|]. intros x Hx. apply Hall. apply in_or_app. left. exact Hx. }
      destruct (Hm1 _ _ Ha) as [a1 [Ha1 Ha1le]].
      destruct (relax_d_after d1 e w a1 Hl1 Hin Ew Ha1) as [b [Hb Hble]].
      assert (Hm2 : dle (relax_d d1 e) (fold_left relax_d l2 (relax_d d1 e))).
      { apply fold_relax_d_mono; [apply relax_d_len; exact Hl1|].
        intros x Hx. apply Hall. apply in_or_app. right. right. exact Hx. }
      destruct (Hm2 _ _ Hb) as [c [Hc Hcb]].
      exists c. split; [exact Hc|]. rewrite ecost_app. cbn. unfold cost_of. rewrite Ew. lia.
  Qed.

  (* ---------- feasibility: no edge can be relaxed ---------- *)
  Definition feasible (d : list (option Z)) : Prop :=
    forall e w a, In e (g_edges g) -> e_cost e = Some w -> getd d (e_src e) = Some a ->
      exists b, getd d (e_dst e) = Some b /\ b <= a + w.

  Lemma no_negative_cycle_feasible d : has_negative_cycle g d = false -> feasible d.
  Proof.
    intros H e w a Hin Hw Ha. unfold has_negative_cycle in H.
    assert (Hf : is_some (relaxable d e) = false).
    { destruct (is_some (relaxable d e)) eqn:E; [|reflexivity].
      assert (existsb (fun e => is_some (relaxable d e)) (edge_order g) = true).
      { apply existsb_exists. exists e. split; [apply in_edge_order; exact Hin | exact E]. }
      congruence. }
    destruct (relaxable d e) eqn:E; [discriminate|].
    destruct (relaxable_none _ _ _ _ E Hw Ha) as [cur [Hc Hle]]. exists cur. auto.
  Qed.

  Lemma feasible_walk d : feasible d -> forall u j es, gwalk g u j es ->
    forall a, getd d u = Some a -> exists b, getd d j = Some b /\ b <= a + ecost es.
  Proof.
    intros Hf u j es Hw. induction Hw as [u | u i es e Hw IH Hin Hsrc Hcost]; intros a Ha.
    - exists a. split; [exact Ha | cbn; lia].
    - destruct (IH _ Ha) as [b [Hb Hle]]. destruct (e_cost e) as [w|] eqn:Ew; [|congruence].
      subst i. destruct (Hf e w b Hin Ew Hb) as [c [Hc Hcle]].
      exists c. split; [exact Hc|]. rewrite ecost_app. cbn. unfold cost_of. rewrite Ew. lia.
  Qed.

  (* ---------- every distance is the cost of a walk from the source ---------- *)
  Definition real (d : list (option Z)) : Prop :=
    forall j a, getd d j = Some a -> exists es, gwalk g s j es /\ ecost es = a.

  Lemma relax_d_real d e : lend d -> In e (g_edges g) -> real d -> real (relax_d d e).
  Proof.
    intros Hl Hin Hr j a Hj. unfold relax_d in Hj. destruct (relaxable d e) as [nd|] eqn:E; [|auto].
    destruct (relaxable_some _ _ _ E) as [w [di [Hw [Hd [Hnd _]]]]].
    destruct (Z.eq_dec j (e_dst e)) as [->|Hne].
    - rewrite getd_setd_eq in Hj by (destruct (Hwf e Hin); unfold lend in Hl; lia).
      inversion Hj; subst a. destruct (Hr _ _ Hd) as [es [Hwk Hc]].
      exists (es ++ [e]). split; [apply gw_snoc with (i := e_src e); auto; congruence|].
      rewrite ecost_app. cbn. unfold cost_of. rewrite Hw. lia.
    - rewrite getd_setd_neq in Hj by congruence. auto.
  Qed.

  Lemma fold_relax_d_real l : forall d, lend d -> (forall e, In e l -> In e (g_edges g)) -> real d ->
    real (fold_left relax_d l d).
  Proof.
    induction l as [|e l IH]; intros d Hl Hin Hr; [exact Hr|]. cbn [fold_left].
    apply IH; [apply relax_d_len; exact Hl | intros; apply Hin; right; assumption |].
    apply relax_d_real; auto. apply Hin. left. reflexivity.
  Qed.

  (* initial distances *)
  Definition d0 : list (option Z) := setd (repeat None (length (g_toks g))) s (Some 0).

  Lemma d0_len : lend d0.
  Proof. unfold d0, lend. rewrite setd_length, repeat_length. reflexivity. Qed.

  Lemma d0_get j : getd d0 j = if j =? s then Some 0 else None.
  Proof.
    unfold d0. destruct (j =? s) eqn:E; [apply Z.eqb_eq in E | apply Z.eqb_neq in E].
    - subst j. apply getd_setd_eq. rewrite repeat_length. exact Hs.
    - rewrite getd_setd_neq by congruence. apply getd_repeat_none.
  Qed.

  Lemma d0_real : real d0.
  Proof.
    intros j a H. rewrite d0_get in H. destruct (j =? s) eqn:E; [|discriminate].
    apply Z.eqb_eq in E. subst j. inversion H; subst a. exists []. split; [constructor | reflexivity].
  Qed.

  Lemma d0_opt0 : opt 0 d0.
  Proof.
    intros j es Hw Hl. destruct es; [|cbn in Hl; lia].
    inversion Hw as [u | u i es' e Hw' Hin Hsrc Hcost E1 E2 E3]; subst.
    - exists 0. rewrite d0_get, Z.eqb_refl. split; [reflexivity | cbn; lia].
    - destruct es'; discriminate.
  Qed.

  (* a feasible, realised vector reached from d0 has distance exactly 0 at the source *)
  Lemma source_zero d : dle d0 d -> real d -> feasible d -> getd d s = Some 0.
  Proof.
    intros Hd Hr Hf. destruct (Hd s 0) as [a [Ha Hle]]; [rewrite d0_get, Z.eqb_refl; reflexivity|].
    destruct (Hr _ _ Ha) as [es [Hw Hc]].
    destruct (feasible_walk d Hf _ _ _ Hw _ Ha) as [b [Hb Hble]].
    rewrite Ha in Hb. inversion Hb; subst b. assert (E0 : a = 0) by lia. rewrite E0 in Ha. exact Ha.
  Qed.

  Lemma feasible_opt d r : dle d0 d -> real d -> feasible d -> opt r d.
  Proof.
    intros Hd Hr Hf j es Hw _. pose proof (source_zero d Hd Hr Hf) as H0.
    destruct (feasible_walk d Hf _ _ _ Hw _ H0) as [b [Hb Hle]]. exists b. split; [exact Hb | lia].
  Qed.
End BF.
