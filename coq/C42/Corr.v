(* C42 — correspondence, oracle and known-finding classes for harness-sdk/src/bin/c42.rs.
   Search ms max_steps skip source ntok r:
     ms      markets in insertion order (long token, short token, cost long->short, cost short->long),
             costs in units of 10^-2 (Decimals of scale 2), market id = position
     r       SErr 1 (unknown source) | SPanic | SOk arb dists preds tos rate_ok
             tos = BestSwapPaths::to(t) for t = 0..ntok as (distance d with rate = exp(-d), path) *)
From GV Require Import lib.Base.
From GV Require Export C42.Model.
Open Scope Z_scope.

Inductive sres :=
| SErr (e : Z)
| SPanic
| SOk (arb : option bool) (dists : list (option Z)) (preds : list (option (Z * Z)))
      (tos : list (option Z * list Z)) (rate_ok : bool).

Inductive case :=
| Search (ms : list market) (max_steps : Z) (skip : bool) (source ntok : Z) (r : sres).

(* ---------- equality helpers ---------- *)
Definition oeqZ := oeqb.
Definition opair_eqb (a b : option (Z * Z)) : bool :=
  match a, b with
  | Some (x, y), Some (x', y') => (x =? x') && (y =? y')
  | None, None => true
  | _, _ => false
  end.
Fixpoint list_eqb {A} (eqb : A -> A -> bool) (a b : list A) : bool :=
  match a, b with
  | [], [] => true
  | x :: r, y :: s => eqb x y && list_eqb eqb r s
  | _, _ => false
  end.
Definition obool_eqb (a b : option bool) : bool :=
  match a, b with Some x, Some y => Bool.eqb x y | None, None => true | _, _ => false end.
Definition to_eqb (a b : option Z * list Z) : bool :=
  oeqb (fst a) (fst b) && list_eqb Z.eqb (snd a) (snd b).

Definition targets (ntok : Z) : list Z := map Z.of_nat (seq 0 (Z.to_nat (ntok + 1))).

Definition corr_b (c : case) : bool :=
  match c with
  | Search ms max_steps skip source ntok r =>
      let g := build ms in
      match best_swap_paths g max_steps source skip, r with
      | Err e, SErr e' => e =? e'
      | Ok p, SOk arb dists preds tos _ =>
          obool_eqb (p_arb p) arb
          && list_eqb oeqb (dist (p_state p)) dists
          && list_eqb opair_eqb (pred (p_state p)) preds
          && list_eqb to_eqb (map (path_to g max_steps source (p_state p)) (targets ntok)) tos
      | _, _ => false
      end
  end.

(* ---------- the property on the implementation's outputs (independent of the model) ---------- *)
(* directed edges (from token, to token, market id, cost) *)
Fixpoint dir_edges (k : Z) (ms : list market) : list (Z * Z * Z * Z) :=
  match ms with
  | [] => []
  | (l, s, cl, cs) :: r =>
      (match cl with Some c => [(l, s, k, c)] | None => [] end) ++
      (match cs with Some c => [(s, l, k, c)] | None => [] end) ++ dir_edges (k + 1) r
  end.

Definition nthZ {A} (l : list A) (i : Z) : option A := if i <? 0 then None else nth_error l (Z.to_nat i).
Definition onth (d : list (option Z)) (i : Z) : option Z := match nthZ d i with Some x => x | None => None end.

(* follow a path of market ids from token [cur]; Some (end token, total cost) when every step is an
   existing edge out of the current token; markets with long = short are not swappable *)
Fixpoint follow (ms : list market) (cur : Z) (path : list Z) (acc : Z) : option (Z * Z) :=
  match path with
  | [] => Some (cur, acc)
  | k :: r =>
      match nthZ ms k with
      | Some (l, s, cl, cs) =>
          if l =? s then None
          else if cur =? l then match cl with Some c => follow ms s r (acc + c) | None => None end
          else if cur =? s then match cs with Some c => follow ms l r (acc + c) | None => None end
          else None
      | None => None
      end
  end.

Fixpoint nodupZ (l : list Z) : bool :=
  match l with [] => true | x :: r => negb (existsb (Z.eqb x) r) && nodupZ r end.

Definition omin (a b : option Z) : option Z :=
  match a, b with
  | Some x, Some y => Some (Z.min x y)
  | Some x, None => Some x
  | None, o => o
  end.

(* exact cheapest walk with at most k edges, per token (synchronous dynamic programme) *)
Definition dp_step (es : list (Z * Z * Z * Z)) (toks : list Z) (d : list (option Z)) : list (option Z) :=
  map (fun t =>
         fold_left (fun acc e => match e with (u, v, _, c) =>
                      if v =? t then match onth d u with Some du => omin acc (Some (du + c)) | None => acc end
                      else acc end) es (onth d t)) toks.
Fixpoint dp_iter (n : nat) (es : list (Z * Z * Z * Z)) (toks : list Z) (d : list (option Z)) :=
  match n with O => d | S k => dp_iter k es toks (dp_step es toks d) end.
Definition best_within (ms : list market) (ntok k source : Z) : list (option Z) :=
  let toks := targets ntok in
  dp_iter (Z.to_nat k) (dir_edges 0 ms) toks (map (fun t => if t =? source then Some 0 else None) toks).
(* no negative cycle anywhere: potentials from the all-zero start are stable after |tokens| rounds *)
Definition no_negative_cycle (ms : list market) (ntok : Z) : bool :=
  let toks := targets ntok in
  let es := dir_edges 0 ms in
  let d := dp_iter (length toks) es toks (map (fun _ => Some 0) toks) in
  list_eqb oeqb (dp_step es toks d) d.

(* validity of one answer of `to`: chain of existing edges from the source to the target, within
   the limit, no market twice, and the reported rate is the rate of exactly that path *)
Definition to_core (ms : list market) (max_steps source : Z) (t : Z) (r : option Z * list Z) : bool :=
  let '(d, path) := r in
  (match path with
   | [] => if t =? source then true else match d with None => true | Some _ => false end
   | _ => match follow ms source path 0 with
          | Some (e, c) => (e =? t) && negb (t =? source) && (Z.of_nat (length path) <=? max_steps) && nodupZ path
                           && match d with Some dv => dv =? c | None => false end
          | None => false
          end
   end)
  && (if (t =? source) && match path with [] => true | _ => false end
      then match d with Some dv => dv =? 0 | None => true end else true).

(* without arbitrage, nothing within the limit is strictly better than what is reported *)
Definition to_opt (nocycle : bool) (best : list (option Z)) (t : Z) (r : option Z * list Z) : bool :=
  if nocycle then
    match onth best t with
    | Some c => match fst r with Some dv => dv <=? c | None => false end
    | None => true
    end
  else true.

Definition source_known (ms : list market) (source : Z) : bool :=
  existsb (fun m : market => match m with (l, s, _, _) => (l =? source) || (s =? source) end) ms.

Definition oracle_b (c : case) : bool :=
  match c with
  | Search ms max_steps skip source ntok r =>
      match r with
      | SErr e => (e =? 1) && negb (source_known ms source)
      | SPanic => false
      | SOk arb dists preds tos rate_ok =>
          rate_ok
          && (Z.of_nat (length tos) =? ntok + 1)
          && source_known ms source
          && (let nocycle := no_negative_cycle ms ntok in
              let best := best_within ms ntok max_steps source in
              forallb (fun tr => to_core ms max_steps source (fst tr) (snd tr)
                                 && to_opt nocycle best (fst tr) (snd tr))
                      (combine (targets ntok) tos))
      end
  end.

(* ---------- known-finding classes ----------
   1 BfStepGuardDropsPath: Bellman-Ford result (arbitrage = Some false).  Everything reported is valid;
     the only failures are targets for which `to` reports NO path although one exists within the
     limit: in-place relaxation built a predecessor chain longer than max_steps and the step guard
     of `to` discards it.
   2 DfsPruningMissesPath: DFS-only search (skip_bellman_ford, arbitrage = None) on a graph without
     negative cycle.  Everything reported is valid; the only failures are targets whose reported
     path is worse than (or missing although there is) a path within the limit: dfs_recursive
     prunes a node reached with more remaining steps because an earlier, deeper visit was cheaper. *)
Fixpoint chain_exceeds (fuel : nat) (preds : list (option (Z * Z))) (cur : option (Z * Z)) : bool :=
  match cur with
  | None => false
  | Some (p, _) => match fuel with O => true | S f => chain_exceeds f preds (getd preds p) end
  end.

Definition known_b (c : case) : Z :=
  match c with
  | Search ms max_steps skip source ntok (SOk arb dists preds tos rate_ok) =>
      let nocycle := no_negative_cycle ms ntok in
      let best := best_within ms ntok max_steps source in
      let trs := combine (targets ntok) tos in
      if rate_ok && (Z.of_nat (length tos) =? ntok + 1) && source_known ms source
         && forallb (fun tr => to_core ms max_steps source (fst tr) (snd tr)) trs
      then
        let failing := filter (fun tr => negb (to_opt nocycle best (fst tr) (snd tr))) trs in
        match failing with
        | [] => 0
        | _ =>
            match arb with
            | Some false =>
                if forallb (fun tr => match snd tr with
                                      | (None, []) => chain_exceeds (Z.to_nat max_steps) preds
                                                        (getd preds (ix (tokens_of ms) (fst tr)))
                                      | _ => false end) failing
                then 1 else 0
            | None => 2
            | Some true => 0
            end
        end
      else 0
  | _ => 0
  end.
