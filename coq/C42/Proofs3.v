(* C42 — Bellman-Ford as implemented: the (distances, predecessors) pair it returns. *)
From GV Require Import lib.Base C42.Model C42.Proofs1 C42.Proofs2.
Open Scope Z_scope.

Section BFState.
  Variable g : graph.
  Variable s : Z.
  Variable k : Z.                       (* max_steps *)
  Let n := Z.of_nat (length (g_toks g)).
  Hypothesis Hs : 0 <= s < n.
  Hypothesis Hwf : forall e, In e (g_edges g) -> 0 <= e_src e < n /\ 0 <= e_dst e < n.

  Definition lenst (st : state) : Prop := lend g (dist st) /\ Z.of_nat (length (pred st)) = n.

  Lemma relax_lenst steps st u e : lenst st -> lenst (fst (relax k steps (st, u) e)).
  Proof.
    intros [H1 H2]. unfold relax. destruct (relaxable (dist st) e); [|split; assumption].
    unfold lenst. cbn [fst dist pred]. split.
    - unfold lend in *. rewrite setd_length. exact H1.
    - destruct (steps <=? k); [rewrite setd_length|]; exact H2.
  Qed.

  (* generic fold principle *)
  Lemma fold_relax_inv (P : state -> Prop) steps l :
    (forall st u e, In e l -> P st -> P (fst (relax k steps (st, u) e))) ->
    forall st u, P st -> P (fst (fold_left (relax k steps) l (st, u))).
  Proof.
    induction l as [|e l IH]; intros Hstep st u HP; [exact HP|]. cbn [fold_left].
    destruct (relax k steps (st, u) e) as [st' u'] eqn:E.
    apply IH; [intros; apply Hstep; [right|]; assumption|].
    pose proof (Hstep st u e (or_introl eq_refl) HP) as H. rewrite E in H. exact H.
  Qed.

  (* rounds beyond max_steps leave the predecessors alone *)
  Lemma relax_pred_late steps st u e : k < steps -> pred (fst (relax k steps (st, u) e)) = pred st.
  Proof.
    intros H. unfold relax. destruct (relaxable (dist st) e); [|reflexivity]. cbn [fst pred].
    replace (steps <=? k) with false by (symmetry; apply Z.leb_gt; lia). reflexivity.
  Qed.

  Lemma round_pred_late steps st : k < steps -> pred (fst (bf_round g k steps st)) = pred st.
  Proof.
    intros H. unfold bf_round.
    apply (fold_relax_inv (fun st' => pred st' = pred st) steps (edge_order g)); [|reflexivity].
    intros st0 u e _ E. rewrite relax_pred_late by exact H. exact E.
  Qed.

  (* rounds within max_steps keep the pair good *)
  Lemma relax_good steps st u e : steps <= k -> lenst st -> In e (g_edges g) ->
    good g s st -> good g s (fst (relax k steps (st, u) e)).
  Proof.
    intros Hk [Hl1 Hl2] Hin [Hpe Hrp]. unfold relax.
    destruct (relaxable (dist st) e) as [nd|] eqn:E; [|split; assumption].
    destruct (relaxable_some g s Hs Hwf _ _ _ E) as [w [di [Hw [Hd [Hnd Hlt]]]]].
    replace (steps <=? k) with true by (symmetry; apply Z.leb_le; lia). cbn [fst].
    destruct (Hwf e Hin) as [Hr1 Hr2]. unfold lend in Hl1. fold n in Hl1.
    assert (Hgd : forall j, getd (setd (dist st) (e_dst e) (Some nd)) j =
                            if j =? e_dst e then Some nd else getd (dist st) j).
    { intros j. destruct (j =? e_dst e) eqn:Ej; [apply Z.eqb_eq in Ej; subst j; apply getd_setd_eq; lia|].
      apply Z.eqb_neq in Ej. apply getd_setd_neq. congruence. }
    assert (Hgp : forall j, getd (setd (pred st) (e_dst e) (Some (e_src e, e_mkt e))) j =
                            if j =? e_dst e then Some (e_src e, e_mkt e) else getd (pred st) j).
    { intros j. destruct (j =? e_dst e) eqn:Ej; [apply Z.eqb_eq in Ej; subst j; apply getd_setd_eq; lia|].
      apply Z.eqb_neq in Ej. apply getd_setd_neq. congruence. }
    split.
    - intros j i m Hj. cbn [pred dist] in *. rewrite Hgp in Hj.
      destruct (j =? e_dst e) eqn:Ej.
      + apply Z.eqb_eq in Ej. subst j. inversion Hj; subst i m.
        exists e, w. rewrite !Hgd, Z.eqb_refl.
        destruct (e_src e =? e_dst e) eqn:Eself.
        * apply Z.eqb_eq in Eself. exists nd, nd. repeat split; auto.
          rewrite <- Eself in Hlt. specialize (Hlt _ Hd). lia.
        * exists di, nd. repeat split; auto. lia.
      + apply Z.eqb_neq in Ej.
        destruct (Hpe _ _ _ Hj) as [e' [w' [a [b [Hin' [Hs' [Hd' [Hm' [Hw' [Ha [Hb Hab]]]]]]]]]]].
        exists e', w'. rewrite !Hgd.
        replace (j =? e_dst e) with false by (symmetry; apply Z.eqb_neq; exact Ej).
        destruct (i =? e_dst e) eqn:Ei.
        * apply Z.eqb_eq in Ei. exists nd, b. repeat split; auto.
          rewrite Ei in Ha. specialize (Hlt _ Ha). lia.
        * exists a, b. repeat split; auto.
    - intros j a Hj. cbn [pred dist] in *. rewrite Hgd in Hj. rewrite Hgp.
      destruct (j =? e_dst e); [right; discriminate|]. eapply Hrp; eassumption.
  Qed.

  Lemma round_edges_in e : In e (edge_order g) -> In e (g_edges g).
  Proof. intros H. apply (proj1 (in_edge_order g s Hs Hwf e)). exact H. Qed.

  Lemma round_lenst steps st : lenst st -> lenst (fst (bf_round g k steps st)).
  Proof.
    intros H. unfold bf_round. apply (fold_relax_inv lenst steps (edge_order g)); [|exact H].
    intros. apply relax_lenst. assumption.
  Qed.

  Lemma round_good steps st : steps <= k -> lenst st -> good g s st -> good g s (fst (bf_round g k steps st)).
  Proof.
    intros Hk Hl Hg. unfold bf_round.
    assert (H : lenst (fst (fold_left (relax k steps) (edge_order g) (st, false))) /\
                good g s (fst (fold_left (relax k steps) (edge_order g) (st, false)))).
    { apply (fold_relax_inv (fun st' => lenst st' /\ good g s st') steps (edge_order g)); [|split; assumption].
      intros st0 u e Hin [A B]. split; [apply relax_lenst; exact A|].
      apply relax_good; auto. apply round_edges_in. exact Hin. }
    apply H.
  Qed.

  Lemma round_dist steps st : dist (fst (bf_round g k steps st)) = fold_left relax_d (edge_order g) (dist st).
  Proof. unfold bf_round. apply (fold_relax_dist g s Hs Hwf). Qed.

  Lemma round_dle steps st : lenst st -> dle (dist st) (dist (fst (bf_round g k steps st))).
  Proof.
    intros [Hl _]. rewrite round_dist. apply (fold_relax_d_mono g s Hs Hwf); [exact Hl|]. apply round_edges_in.
  Qed.

  Lemma round_real steps st : lenst st -> real g s (dist st) -> real g s (dist (fst (bf_round g k steps st))).
  Proof.
    intros [Hl _] Hr. rewrite round_dist. apply (fold_relax_d_real g s Hs Hwf); auto. apply round_edges_in.
  Qed.

  Lemma round_opt_st steps st r : 0 <= r -> lenst st -> opt g s r (dist st) ->
    opt g s (r + 1) (dist (fst (bf_round g k steps st))).
  Proof. intros Hr [Hl _] Ho. rewrite round_dist. apply (round_opt g s Hs Hwf); assumption. Qed.

  (* ---------- the loop ---------- *)
  Definition pred0 : list (option (Z * Z)) := repeat None (length (g_toks g)).

  Definition cache_inv (st : state) (cached : option (list (option Z))) : Prop :=
    match cached with
    | None => True
    | Some c => lend g c /\ good g s (mkState c (pred st)) /\ opt g s k c /\
                dle c (dist st) /\ dle (d0 g s) c
    end.

  Definition loop_inv (steps : Z) (st : state) (cached : option (list (option Z))) : Prop :=
    lenst st /\ dle (d0 g s) (dist st) /\ real g s (dist st) /\ opt g s (steps - 1) (dist st) /\
    cache_inv st cached /\
    match cached with
    | None => (steps <= k /\ good g s st) \/ (k < 1 /\ pred st = pred0)
    | Some _ => k < steps
    end.

  Definition res_inv (st : state) (cached : option (list (option Z))) : Prop :=
    lenst st /\ dle (d0 g s) (dist st) /\ real g s (dist st) /\
    cache_inv st cached /\
    match cached with
    | None => good g s st \/ (k < 1 /\ pred st = pred0)
    | Some _ => True
    end.

  Lemma good_same_pred c st st' : pred st' = pred st -> good g s (mkState c (pred st)) -> good g s (mkState c (pred st')).
  Proof. intros E H. rewrite E. exact H. Qed.

  Lemma bf_loop_res fuel : forall steps st cached, 1 <= steps -> loop_inv steps st cached ->
    res_inv (fst (bf_loop fuel g k steps st cached)) (snd (bf_loop fuel g k steps st cached)).
  Proof.
    induction fuel as [|f IH]; intros steps st cached Hst [Hl [Hd [Hr [Ho [Hc Hm]]]]].
    - cbn. split; [exact Hl|]. split; [exact Hd|]. split; [exact Hr|]. split; [exact Hc|].
      destruct cached; [exact I|]. destruct Hm as [[_ A] | A]; auto.
    - cbn [bf_loop]. destruct (bf_round g k steps st) as [st' upd] eqn:Er.
      assert (Est : st' = fst (bf_round g k steps st)) by (rewrite Er; reflexivity).
      assert (Hl' : lenst st') by (rewrite Est; apply round_lenst; exact Hl).
      assert (Hdd : dle (dist st) (dist st')) by (rewrite Est; apply round_dle; exact Hl).
      assert (Hd' : dle (d0 g s) (dist st')) by (eapply (dle_trans g s Hs Hwf); eassumption).
      assert (Hr' : real g s (dist st')) by (rewrite Est; apply round_real; assumption).
      assert (Ho' : opt g s steps (dist st')).
      { replace steps with (steps - 1 + 1) at 1 by lia. rewrite Est. apply round_opt_st; [lia | assumption | assumption]. }
      (* cache invariant carried over the round *)
      assert (Hc' : cache_inv st' cached).
      { destruct cached as [c|]; [|exact I]. destruct Hc as [A [B [C [D E]]]].
        split; [exact A|]. split; [|split; [exact C|split; [eapply (dle_trans g s Hs Hwf); eassumption | exact E]]].
        apply good_same_pred with (st := st); [|exact B]. rewrite Est. apply round_pred_late. exact Hm. }
      assert (Hm' : match cached with
                    | None => (steps <= k /\ good g s st') \/ (k < 1 /\ pred st' = pred0)
                    | Some _ => True end).
      { destruct cached; [exact I|]. destruct Hm as [[A B] | [A B]].
        - left. split; [exact A|]. rewrite Est. apply round_good; assumption.
        - right. split; [exact A|]. rewrite Est, round_pred_late by lia. exact B. }
      destruct upd; cbn [negb].
      + (* another round *)
        apply IH; [lia|].
        split; [exact Hl'|]. split; [exact Hd'|]. split; [exact Hr'|].
        split; [replace (steps + 1 - 1) with steps by lia; exact Ho'|].
        destruct (steps =? k) eqn:Ek; [apply Z.eqb_eq in Ek | apply Z.eqb_neq in Ek].
        * (* the cache is taken now *)
          destruct cached as [c|]; [lia|].
          destruct Hm' as [[A B] | [A B]]; [|lia].
          split; [|lia]. cbn [cache_inv].
          split; [apply Hl'|]. split; [destruct st'; exact B|].
          split; [rewrite <- Ek; exact Ho'|]. split; [apply (dle_refl g s Hs Hwf) | exact Hd'].
        * split; [exact Hc'|]. destruct cached; [lia|].
          destruct Hm' as [[A B] | [A B]]; [left; split; [lia | exact B] | right; auto].
      + (* no update: stop *)
        cbn [fst snd]. split; [exact Hl'|]. split; [exact Hd'|]. split; [exact Hr'|]. split; [exact Hc'|].
        destruct cached; [exact I|]. destruct Hm' as [[_ A] | A]; auto.
  Qed.

  Definition init_st : state := init_state g s.

  Lemma init_lenst : lenst init_st.
  Proof.
    unfold init_st, init_state, lenst, lend. cbn [dist pred].
    rewrite setd_length, !repeat_length. split; reflexivity.
  Qed.

  Lemma init_good : good g s init_st.
  Proof.
    split.
    - intros j i m H. unfold init_st, init_state in H. cbn [pred] in H. rewrite getd_repeat_none in H. discriminate.
    - intros j a H. unfold init_st, init_state in H. cbn [dist] in H.
      change (setd (repeat None (length (g_toks g))) s (Some 0)) with (d0 g s) in H.
      rewrite (d0_get g s Hs Hwf) in H. destruct (j =? s) eqn:E; [|discriminate]. apply Z.eqb_eq in E. auto.
  Qed.

  (* ---------- what bellman_ford returns ---------- *)
  Definition no_pred (st : state) : Prop := forall j, getd (pred st) j = None.

  Theorem bellman_ford_result source res :
    index_of source (g_toks g) = Some s ->
    bellman_ford g k source = Ok res ->
    (good g s res \/ (k < 1 /\ no_pred res)) /\ getd (dist res) s = Some 0 /\ opt g s k (dist res).
  Proof.
    intros Hix H. unfold bellman_ford in H. rewrite Hix in H.
    pose proof (bf_loop_res (Z.to_nat (node_count g - 1)) 1 init_st None ltac:(lia)) as Hres.
    fold init_st in H.
    destruct (bf_loop (Z.to_nat (node_count g - 1)) g k 1 init_st None) as [st cached] eqn:El.
    cbn [fst snd] in Hres.
    destruct (has_negative_cycle g (dist st)) eqn:Enc; [discriminate|].
    inversion H; subst res. clear H.
    assert (Hinit : loop_inv 1 init_st None).
    { split; [apply init_lenst|]. split; [apply (dle_refl g s Hs Hwf)|]. split; [apply (d0_real g s Hs Hwf)|].
      split; [apply (d0_opt0 g s Hs Hwf)|]. split; [exact I|].
      destruct (Z_le_gt_dec 1 k); [left; split; [lia | apply init_good] | right; split; [lia | reflexivity]]. }
    destruct (Hres Hinit) as [Hl [Hd [Hr [Hc Hm]]]].
    pose proof (no_negative_cycle_feasible g s Hs Hwf _ Enc) as Hf.
    pose proof (source_zero g s Hs Hwf _ Hd Hr Hf) as H0.
    destruct cached as [c|].
    - destruct Hc as [A [B [C [D E]]]]. split; [left; exact B|]. cbn [dist]. split; [|exact C].
      destruct (E s 0) as [a [Ha Hle]]; [rewrite (d0_get g s Hs Hwf), Z.eqb_refl; reflexivity|].
      destruct (D _ _ Ha) as [b [Hb Hba]]. rewrite H0 in Hb. inversion Hb; subst b.
      assert (a = 0) by lia. subst a. exact Ha.
    - cbn [dist]. split.
      + destruct Hm as [A | [A0 A]]; [left; destruct st; exact A | right]. split; [exact A0|].
        intros j. cbn [pred]. rewrite A. apply getd_repeat_none.
      + split; [exact H0|]. apply (feasible_opt g s Hs Hwf); assumption.
  Qed.
End BFState.
