(* C42 — arrays, walks in the graph, predecessor chains, and what BestSwapPaths::to returns
   for ANY (distances, predecessors) pair satisfying the invariants [good]. *)
From GV Require Import lib.Base C42.Model.
Open Scope Z_scope.

(* ---------- arrays ---------- *)
Lemma set_nth_length {A} n : forall (l : list A) v, length (set_nth n l v) = length l.
Proof. induction n; intros [|x r] v; cbn; auto. Qed.

Lemma setd_length {A} (l : list A) i v : length (setd l i v) = length l.
Proof. unfold setd. destruct (i <? 0); [reflexivity | apply set_nth_length]. Qed.

Lemma nth_set_nth_eq {A} n : forall (l : list A) v d, (n < length l)%nat -> nth n (set_nth n l v) d = v.
Proof. induction n; intros [|x r] v d H; cbn in *; try lia; auto. apply IHn. lia. Qed.

Lemma nth_set_nth_neq {A} n : forall m (l : list A) v d, n <> m -> nth m (set_nth n l v) d = nth m l d.
Proof.
  induction n; intros m [|x r] v d H; cbn; auto.
  - destruct m; [lia | reflexivity].
  - destruct m; [reflexivity | apply IHn; lia].
Qed.

Lemma getd_setd_eq {A} (l : list (option A)) i v :
  0 <= i < Z.of_nat (length l) -> getd (setd l i v) i = v.
Proof.
  intros H. unfold getd, setd. replace (i <? 0) with false by (symmetry; apply Z.ltb_ge; lia).
  apply nth_set_nth_eq. lia.
Qed.

Lemma getd_setd_neq {A} (l : list (option A)) i j v : i <> j -> getd (setd l i v) j = getd l j.
Proof.
  intros H. unfold getd, setd. destruct (j <? 0) eqn:Ej; [reflexivity|].
  destruct (i <? 0) eqn:Ei; [reflexivity|].
  apply Z.ltb_ge in Ej, Ei. apply nth_set_nth_neq. lia.
Qed.

Lemma getd_range {A} (l : list (option A)) i x : getd l i = Some x -> 0 <= i < Z.of_nat (length l).
Proof.
  unfold getd. destruct (i <? 0) eqn:E; [discriminate|]. apply Z.ltb_ge in E. intros H.
  destruct (Nat.lt_ge_cases (Z.to_nat i) (length l)) as [Hl|Hl]; [lia|].
  rewrite nth_overflow in H by lia. discriminate.
Qed.

Lemma getd_repeat_none {A} n i : getd (repeat (@None A) n) i = None.
Proof.
  unfold getd. destruct (i <? 0); [reflexivity|]. apply nth_repeat.
Qed.

(* ---------- walks ---------- *)
Definition cost_of (e : edge) : Z := match e_cost e with Some w => w | None => 0 end.
Fixpoint ecost (es : list edge) : Z := match es with [] => 0 | e :: r => cost_of e + ecost r end.

Lemma ecost_app a b : ecost (a ++ b) = ecost a + ecost b.
Proof. induction a; cbn; lia. Qed.

(* gwalk g u v es: es is a chain of existing, estimated edges leading from node u to node v *)
Inductive gwalk (g : graph) : Z -> Z -> list edge -> Prop :=
| gw_nil u : gwalk g u u []
| gw_snoc u i es e : gwalk g u i es -> In e (g_edges g) -> e_src e = i -> e_cost e <> None ->
    gwalk g u (e_dst e) (es ++ [e]).

Definition walk_nodes (u : Z) (es : list edge) : list Z := u :: map e_dst es.

(* ---------- predecessor chains ---------- *)
Inductive chain (pr : list (option (Z * Z))) : Z -> list (Z * Z) -> Z -> Prop :=
| ch_nil j : getd pr j = None -> chain pr j [] j
| ch_cons j p m l r : getd pr j = Some (p, m) -> chain pr p l r -> chain pr j ((p, m) :: l) r.

Lemma chain_det pr j l r : chain pr j l r -> forall l' r', chain pr j l' r' -> l = l' /\ r = r'.
Proof.
  induction 1 as [j H | j p m l r H Hc IH]; intros l' r' H'; inversion H'; subst; try congruence.
  - auto.
  - rewrite H in H0. inversion H0; subst. destruct (IH _ _ H1) as [-> ->]. auto.
Qed.

Lemma chain_suffix pr j l r : chain pr j l r ->
  forall l1 p m l2, l = l1 ++ (p, m) :: l2 -> chain pr p l2 r.
Proof.
  induction 1 as [j H | j p m l r H Hc IH]; intros l1 p' m' l2 E.
  - destruct l1; discriminate.
  - destruct l1 as [|x l1]; cbn in E; inversion E; subst; [exact Hc | eapply IH; reflexivity].
Qed.

Lemma chain_nodup pr j l r : chain pr j l r -> NoDup (j :: map fst l).
Proof.
  induction 1 as [j H | j p m l r H Hc IH].
  - constructor; [intros []| constructor].
  - constructor; [|exact IH]. cbn [map fst]. intros [E | Hin].
    + subst p. destruct (chain_det _ _ _ _ Hc _ _ (ch_cons pr j j m l r H Hc)) as [E _].
      apply (f_equal (@length _)) in E. cbn in E. lia.
    + apply in_map_iff in Hin. destruct Hin as [[p' m'] [E Hin]]. cbn in E. subst p'.
      apply in_split in Hin. destruct Hin as [l1 [l2 El]].
      pose proof (chain_suffix _ _ _ _ Hc _ _ _ _ El) as Hs.
      destruct (chain_det _ _ _ _ Hs _ _ (ch_cons pr j p m l r H Hc)) as [E _].
      apply (f_equal (@length _)) in E. rewrite El in E. cbn in E. rewrite app_length in E. cbn in E. lia.
Qed.

(* ---------- the walk of BestSwapPaths::to ---------- *)
Lemma walk_chain fuel : forall k pr j steps acc path,
  walk fuel k pr (getd pr j) steps acc = Some path ->
  exists l r, chain pr j l r /\ path = rev (map snd l) ++ acc /\ steps + Z.of_nat (length l) <= Z.max k steps.
Proof.
  induction fuel as [|f IH]; intros k pr j steps acc path H.
  - cbn in H. destruct (getd pr j) as [[p m]|] eqn:E; [discriminate|].
    inversion H; subst. exists [], j. split; [constructor; exact E|]. split; [reflexivity | cbn; lia].
  - cbn in H. destruct (getd pr j) as [[p m]|] eqn:E.
    + destruct (k <? steps + 1) eqn:Ek; [discriminate|]. apply Z.ltb_ge in Ek.
      apply IH in H. destruct H as [l [r [Hc [Hp Hl]]]].
      exists ((p, m) :: l), r. split; [econstructor; eassumption|].
      split; [cbn; rewrite <- app_assoc; exact Hp | cbn [length]; lia].
    + inversion H; subst. exists [], j. split; [constructor; exact E|]. split; [reflexivity | cbn; lia].
Qed.

(* ---------- invariants of a (distances, predecessors) pair ---------- *)
Section Good.
  Variable g : graph.
  Variable s : Z.                          (* node index of the source *)

  (* every predecessor entry is an existing estimated edge whose tail is reached, and the head's
     distance is not below tail distance + cost *)
  Definition pred_edge (st : state) : Prop :=
    forall j i m, getd (pred st) j = Some (i, m) ->
      exists e w a b, In e (g_edges g) /\ e_src e = i /\ e_dst e = j /\ e_mkt e = m /\ e_cost e = Some w /\
                      getd (dist st) i = Some a /\ getd (dist st) j = Some b /\ a + w <= b.
  (* a reached node is the source or has a predecessor *)
  Definition reached_has_pred (st : state) : Prop :=
    forall j a, getd (dist st) j = Some a -> j = s \/ getd (pred st) j <> None.

  Definition good (st : state) : Prop := pred_edge st /\ reached_has_pred st.

  (* a chain is a walk from its root, the root is the source, and distances dominate its cost *)
  Lemma chain_walk st j l r : good st -> chain (pred st) j l r -> l <> [] ->
    exists es, gwalk g r j es /\ map e_mkt es = rev (map snd l) /\
               walk_nodes r es = rev (j :: map fst l) /\ r = s /\
               exists a b, getd (dist st) r = Some a /\ getd (dist st) j = Some b /\ a + ecost es <= b.
  Proof.
    intros [Hpe Hrp] Hc. induction Hc as [j H | j p m l r H Hc IH]; intros Hne; [congruence|].
    destruct (Hpe _ _ _ H) as [e [w [a [b [Hin [Hs [Hd [Hm [Hw [Ha [Hb Hab]]]]]]]]]]].
    subst j p m.
    destruct l as [|x l'].
    - (* the tail of e is the root *)
      inversion Hc as [j0 Hnone E1 E2 E3 | ]. subst r.
      exists [e]. split.
      { change [e] with ([] ++ [e]). apply gw_snoc with (i := e_src e); auto; [constructor | congruence]. }
      split; [reflexivity|].
      split; [reflexivity|].
      split.
      { destruct (Hrp _ _ Ha) as [E | E]; [exact E | contradiction]. }
      exists a, b. split; [exact Ha|]. split; [exact Hb|]. cbn. unfold cost_of. rewrite Hw. lia.
    - destruct (IH ltac:(discriminate)) as [es [Hw' [Hmk [Hn [Hr [a' [b' [Ha' [Hb' Hc']]]]]]]]].
      exists (es ++ [e]). split.
      { apply gw_snoc with (i := e_src e); auto; congruence. }
      split; [rewrite map_app; cbn; rewrite Hmk; reflexivity|].
      split.
      { unfold walk_nodes in *. rewrite map_app. cbn [map]. rewrite app_comm_cons, Hn.
        cbn [rev map fst]. reflexivity. }
      split; [exact Hr|].
      exists a', b. split; [exact Ha'|]. split; [exact Hb|].
      rewrite ecost_app. cbn [ecost]. assert (Hce : cost_of e = w) by (unfold cost_of; rewrite Hw; reflexivity).
      rewrite Hce. rewrite Ha in Hb'. inversion Hb'; subst. lia.
  Qed.
End Good.
