(* C42 — the theorems about best_swap_paths + BestSwapPaths::to on graphs built from markets. *)
From GV Require Import lib.Base C42.Model C42.Proofs1 C42.Proofs2 C42.Proofs3 C42.Proofs4 C42.Proofs5.
Open Scope Z_scope.

Lemma gwalk_edges_in g u v es : gwalk g u v es -> forall e, In e es -> In e (g_edges g).
Proof.
  induction 1 as [|u i es e Hw IH Hin]; intros e0 He0; [destruct He0|].
  apply in_app_or in He0. destruct He0 as [X | [X | []]]; [auto | subst; exact Hin].
Qed.

Section PathTo.
  Variable g : graph.
  Variable s k : Z.
  Hypothesis Hk : 0 <= k.
  Hypothesis Hmp : mkt_pair g.

  (* what `to` returns for a (distances, predecessors) pair that is good (or has no predecessors) *)
  Theorem path_to_valid st source target d path :
    good g s st \/ no_pred st ->
    index_of source (g_toks g) = Some s ->
    getd (dist st) s = Some 0 ->
    path_to g k source st target = (d, path) -> path <> [] ->
    exists t es dv,
      index_of target (g_toks g) = Some t /\ source <> target /\
      gwalk g s t es /\ map e_mkt es = path /\ Z.of_nat (length path) <= k /\
      NoDup (walk_nodes s es) /\ NoDup path /\
      d = Some dv /\ getd (dist st) t = Some dv /\ ecost es <= dv.
  Proof.
    intros Hg Hix H0 H Hne. unfold path_to in H.
    destruct (index_of target (g_toks g)) as [t|] eqn:Et; [|inversion H; subst; congruence].
    destruct (source =? target) eqn:Est; [inversion H; subst; congruence|]. apply Z.eqb_neq in Est.
    destruct (walk (Z.to_nat (k + 1)) k (pred st) (getd (pred st) t) 0 []) as [p|] eqn:Ew;
      [|inversion H; subst; congruence].
    inversion H; subst path. clear H.
    destruct (walk_chain _ _ _ _ _ _ _ Ew) as [l [r [Hc [Hp Hl]]]]. rewrite app_nil_r in Hp.
    assert (Hlne : l <> []) by (intros ->; cbn in Hp; congruence).
    destruct Hg as [Hg | Hnp].
    2:{ exfalso. inversion Hc as [j Hn | j p0 m l' r' Hs' Hc']; subst; [congruence|]. rewrite Hnp in Hs'. discriminate. }
    destruct (chain_walk g s st t l r Hg Hc Hlne) as [es [Hw [Hm [Hn [Hr [a [b [Ha [Hb Hab]]]]]]]]].
    subst r. rewrite H0 in Ha. inversion Ha; subst a.
    exists t, es, b. split; [reflexivity|]. split; [exact Est|]. split; [exact Hw|].
    split; [rewrite Hm, Hp; reflexivity|].
    assert (Hnd : NoDup (walk_nodes s es)).
    { rewrite Hn. apply NoDup_rev. apply (chain_nodup _ _ _ _ Hc). }
    split.
    { rewrite Hp, rev_length, map_length. lia. }
    split; [exact Hnd|]. split.
    { rewrite Hp, <- Hm. apply (gwalk_nodup_markets g s t es Hmp Hw Hnd). }
    split; [|split; [exact Hb | lia]].
    destruct p; [congruence|]. f_equal. exact Hb.
  Qed.
End PathTo.

(* ---------- top level ---------- *)
Definition toks_of (ms : list market) := g_toks (build ms).

Lemma bsp_cases g k source skip p : best_swap_paths g k source skip = Ok p ->
  (p_arb p = Some false /\ bellman_ford g k source = Ok (p_state p)) \/
  (p_arb p <> Some false /\ dfs g k source = Ok (p_state p)).
Proof.
  unfold best_swap_paths. destruct skip.
  - destruct (dfs g k source) as [st|e] eqn:E; cbn; [|discriminate].
    intros H; inversion H; subst. right. split; [discriminate | reflexivity].
  - destruct (bellman_ford g k source) as [st|e] eqn:E.
    + intros H; inversion H; subst. left. auto.
    + destruct e as [|q|q]; try discriminate.
      destruct q as [q|q|]; try discriminate. destruct q; try discriminate.
      destruct (dfs g k source) as [st|e] eqn:E'; cbn; [|discriminate].
      intros H; inversion H; subst. right. split; [discriminate | reflexivity].
Qed.

Lemma bf_source g k source st : bellman_ford g k source = Ok st -> exists s, index_of source (g_toks g) = Some s.
Proof. unfold bellman_ford. destruct (index_of source (g_toks g)); [eauto | discriminate]. Qed.
Lemma dfs_source g k source st : dfs g k source = Ok st -> exists s, index_of source (g_toks g) = Some s.
Proof. unfold dfs. destruct (index_of source (g_toks g)); [eauto | discriminate]. Qed.

(* Every recommended path: valid chain of estimated edges from the source node to the target
   node, at most max_steps long, no node and no market twice; the reported distance (the rate is
   exp(-distance)) is never below the path's cost.  With Bellman-Ford (arbitrage = Some false)
   it EQUALS the path's cost and no walk of at most max_steps edges is cheaper. *)
Theorem search_sound ms k source skip p target d path :
  0 <= k ->
  best_swap_paths (build ms) k source skip = Ok p ->
  path_to (build ms) k source (p_state p) target = (d, path) -> path <> [] ->
  exists s t es dv,
    index_of source (toks_of ms) = Some s /\ index_of target (toks_of ms) = Some t /\ source <> target /\
    gwalk (build ms) s t es /\ map e_mkt es = path /\
    (forall e, In e es -> edge_of_market (tokens_of ms) ms e) /\
    Z.of_nat (length path) <= k /\ NoDup (walk_nodes s es) /\ NoDup path /\
    d = Some dv /\ ecost es <= dv /\
    (p_arb p = Some false ->
       dv = ecost es /\
       forall es', gwalk (build ms) s t es' -> Z.of_nat (length es') <= k -> dv <= ecost es').
Proof.
  intros Hk Hb Hp Hne. set (g := build ms) in *.
  assert (Hwf : forall e, In e (g_edges g) ->
            0 <= e_src e < Z.of_nat (length (g_toks g)) /\ 0 <= e_dst e < Z.of_nat (length (g_toks g)))
    by (apply build_wf).
  destruct (bsp_cases _ _ _ _ _ Hb) as [[Harb Hbf] | [Harb Hdfs]].
  - destruct (bf_source _ _ _ _ Hbf) as [s Hs].
    pose proof (index_of_range _ _ _ Hs) as Hsr.
    destruct (bellman_ford_result g s k Hsr Hwf source _ Hs Hbf) as [Hg [H0 Hopt]].
    assert (Hg' : good g s (p_state p) \/ no_pred (p_state p)) by (destruct Hg as [A | [_ A]]; auto).
    destruct (path_to_valid g s k Hk (build_mkt_pair ms) _ _ _ _ _ Hg' Hs H0 Hp Hne)
      as [t [es [dv [Ht [Hst [Hw [Hm [Hl [Hn [Hnp [Hd [Hdt Hc]]]]]]]]]]]].
    exists s, t, es, dv. repeat split; auto.
    + intros e He. apply build_edges. eapply gwalk_edges_in; eassumption.
    + (* the path itself is a walk of at most k edges, so the distance is also <= its cost *)
      assert (Hlen : Z.of_nat (length es) <= k) by (rewrite <- (map_length e_mkt), Hm; exact Hl).
      destruct (Hopt _ _ Hw Hlen) as [b [Hb' Hle]]. rewrite Hdt in Hb'. inversion Hb'; subst b. lia.
    + intros es' Hw' Hl'. destruct (Hopt _ _ Hw' Hl') as [b [Hb' Hle]].
      rewrite Hdt in Hb'. inversion Hb'; subst b. exact Hle.
  - destruct (dfs_source _ _ _ _ Hdfs) as [s Hs].
    pose proof (index_of_range _ _ _ Hs) as Hsr.
    destruct (dfs_result g s k Hsr Hwf source _ Hk Hs Hdfs) as [Hg H0].
    destruct (path_to_valid g s k Hk (build_mkt_pair ms) _ _ _ _ _ (or_introl Hg) Hs H0 Hp Hne)
      as [t [es [dv [Ht [Hst [Hw [Hm [Hl [Hn [Hnp [Hd [Hdt Hc]]]]]]]]]]]].
    exists s, t, es, dv. repeat split; auto; try contradiction.
    intros e He. apply build_edges. eapply gwalk_edges_in; eassumption.
Qed.

(* an empty path: no rate unless the target is the source, whose distance is 0 *)
Theorem search_empty_path ms k source skip p target d :
  0 <= k ->
  best_swap_paths (build ms) k source skip = Ok p ->
  path_to (build ms) k source (p_state p) target = (d, []) ->
  d = None \/ (source = target /\ d = Some 0).
Proof.
  intros Hk Hb Hp. set (g := build ms) in *.
  assert (Hwf : forall e, In e (g_edges g) ->
            0 <= e_src e < Z.of_nat (length (g_toks g)) /\ 0 <= e_dst e < Z.of_nat (length (g_toks g)))
    by (apply build_wf).
  assert (H0 : exists s, index_of source (g_toks g) = Some s /\ getd (dist (p_state p)) s = Some 0).
  { destruct (bsp_cases _ _ _ _ _ Hb) as [[Harb Hbf] | [Harb Hdfs]].
    - destruct (bf_source _ _ _ _ Hbf) as [s Hs]. exists s. split; [exact Hs|].
      pose proof (index_of_range _ _ _ Hs) as Hsr.
      apply (bellman_ford_result g s k Hsr Hwf source _ Hs Hbf).
    - destruct (dfs_source _ _ _ _ Hdfs) as [s Hs]. exists s. split; [exact Hs|].
      pose proof (index_of_range _ _ _ Hs) as Hsr.
      apply (dfs_result g s k Hsr Hwf source _ Hk Hs Hdfs). }
  destruct H0 as [s [Hs H0]]. unfold path_to in Hp.
  destruct (index_of target (g_toks g)) as [t|] eqn:Et; [|inversion Hp; auto].
  destruct (source =? target) eqn:Est.
  - apply Z.eqb_eq in Est. subst target. rewrite Hs in Et. inversion Et; subst t.
    inversion Hp; subst. right. auto.
  - destruct (walk (Z.to_nat (k + 1)) k (pred (p_state p)) (getd (pred (p_state p)) t) 0 []) as [q|];
      [|inversion Hp; auto].
    inversion Hp; subst. left. reflexivity.
Qed.

(* ---------- class 1 is exactly "the step guard tripped" ---------- *)
Lemma walk_some_nonempty fuel : forall k pr p m steps acc path,
  walk fuel k pr (Some (p, m)) steps acc = Some path -> path <> [].
Proof.
  induction fuel as [|f IH]; intros k pr p m steps acc path H; cbn in H; [discriminate|].
  destruct (k <? steps + 1); [discriminate|].
  destruct (getd pr p) as [[p' m']|] eqn:E.
  - apply IH in H. exact H.
  - destruct f; cbn in H; inversion H; discriminate.
Qed.

Lemma index_of_inj l x y r : index_of x l = Some r -> index_of y l = Some r -> x = y.
Proof.
  intros Hx Hy. apply index_of_from_some in Hx, Hy. destruct Hx as [_ Hx], Hy as [_ Hy].
  rewrite Z.sub_0_r in *.
  (* nth r l (x+1) = x and nth r l (y+1) = y with r in range *)
  assert (Hr : (Z.to_nat r < length l)%nat).
  { destruct (Nat.lt_ge_cases (Z.to_nat r) (length l)); [assumption|]. rewrite nth_overflow in Hx by lia. lia. }
  rewrite (nth_indep l (x + 1) (y + 1) Hr) in Hx. congruence.
Qed.

(* Bellman-Ford result: when a walk within the limit exists but `to` reports no path, the
   predecessor walk was cut by the step guard (it is longer than max_steps) *)
Theorem bf_empty_path_guard ms k source p target d s t es :
  0 <= k ->
  best_swap_paths (build ms) k source false = Ok p -> p_arb p = Some false ->
  path_to (build ms) k source (p_state p) target = (d, []) ->
  index_of source (toks_of ms) = Some s -> index_of target (toks_of ms) = Some t -> source <> target ->
  gwalk (build ms) s t es -> Z.of_nat (length es) <= k ->
  (exists dv, getd (dist (p_state p)) t = Some dv /\ dv <= ecost es) /\
  walk (Z.to_nat (k + 1)) k (pred (p_state p)) (getd (pred (p_state p)) t) 0 [] = None.
Proof.
  intros Hk Hb Harb Hp Hs Ht Hst Hw Hl. set (g := build ms) in *.
  assert (Hwf : forall e, In e (g_edges g) ->
            0 <= e_src e < Z.of_nat (length (g_toks g)) /\ 0 <= e_dst e < Z.of_nat (length (g_toks g)))
    by (apply build_wf).
  destruct (bsp_cases _ _ _ _ _ Hb) as [[_ Hbf] | [Hn _]]; [|congruence].
  pose proof (index_of_range _ _ _ Hs) as Hsr.
  destruct (bellman_ford_result g s k Hsr Hwf source _ Hs Hbf) as [Hg [H0 Hopt]].
  destruct (Hopt _ _ Hw Hl) as [dv [Hdv Hle]].
  split; [exists dv; auto|].
  assert (Hts : t <> s) by (intros ->; apply Hst; eapply index_of_inj; eassumption).
  assert (Hpt : getd (pred (p_state p)) t <> None).
  { destruct Hg as [[_ Hrp] | [Hk1 _]].
    - destruct (Hrp _ _ Hdv); [contradiction | assumption].
    - (* max_steps = 0: the only walk is the empty one *)
      exfalso. destruct es as [|e0 es0]; [|cbn [length] in Hl; lia].
      inversion Hw as [u | u i es' e Hw' Hin Hsrc Hcost E1 E2 E3]; [congruence | destruct es'; discriminate]. }
  unfold path_to in Hp. fold g in Hp. unfold toks_of in Ht. fold g in Ht. rewrite Ht in Hp.
  replace (source =? target) with false in Hp by (symmetry; apply Z.eqb_neq; exact Hst).
  destruct (getd (pred (p_state p)) t) as [[p0 m0]|] eqn:Ept; [|congruence].
  destruct (walk (Z.to_nat (k + 1)) k (pred (p_state p)) (Some (p0, m0)) 0 []) as [q|] eqn:Ew; [|reflexivity].
  exfalso. apply walk_some_nonempty in Ew. inversion Hp; subst. congruence.
Qed.
