#!/bin/sh
# tools/test_fix.sh <patch.diff> : run the repository's whole test-suite (nextest, offline) in the scratch worktree
# /tmp/wt/confirm at /repo's HEAD with the patch applied; prints the summary and any baseline test that fails.
P="$(readlink -f "$1")"; cd /tmp/wt/confirm || exit 2
exec 9>/tmp/wt/confirm.lock; flock 9
git checkout -q -- . && git checkout -q --detach "$(git -C /repo rev-parse HEAD)" && git apply "$P" || { echo "patch does not apply"; exit 2; }
L=/tmp/wt/testfix-$(basename "$P").log
cargo nextest run --workspace --no-fail-fast --test-threads 8 --offline > "$L" 2>&1
grep -E "Summary" "$L" | tail -1
python3 - "$L" <<'PY'
import json,re,sys
log=open(sys.argv[1]).read(); base=set(json.load(open("/root/.vp/BASELINE.json"))["stable_pass"])
failed={f"{a}::{b}" for a,b in re.findall(r"^\s+(?:FAIL|SIGABRT|SIGSEGV|TIMEOUT)\s+\[[^\]]*\]\s+(\S+)\s+(\S+)", log, re.M)}
print("baseline tests failing:", sorted(n for n in failed if n in base))
PY
git checkout -q -- .
