#!/usr/bin/env python3
"""Assemble MANIFEST.json from checks/cXX.py (one module per claimed property)."""
import importlib.util, json, os, sys
ROOT = os.path.dirname(os.path.dirname(os.path.abspath(__file__)))
props = [json.loads(l) for l in open(os.path.join(ROOT, "properties.jsonl"))]
checks, na = [], []
NA_REASONS = {}
p = os.path.join(ROOT, "checks", "not_applicable.json")
if os.path.exists(p):
    NA_REASONS = json.load(open(p))
LEVELS = ["exploration", "fault_enumeration", "model_checking", "proof", "translation_validation", "other"]
def norm_level(l):
    if l in LEVELS: return l
    for k in LEVELS:
        if l.startswith(k): return k
    return "other"
for pr in props:
    pid = pr["id"]
    f = os.path.join(ROOT, "checks", pid.lower() + ".py")
    if not os.path.exists(f):
        na.append(dict(property_id=pid, reason=NA_REASONS.get(pid, "not claimed yet: model, theorems and correspondence for this property are not built (see DESIGN.md section 6)")))
        continue
    spec = importlib.util.spec_from_file_location("c", f)
    m = importlib.util.module_from_spec(spec); spec.loader.exec_module(m)
    s = m.SPEC
    checks.append(dict(
        property_id=pid,
        quick_cmd=f"./check {pid} --tier quick",
        thorough_cmd=f"./check {pid} --tier thorough",
        evidence_file=f"/verif/evidence/{pid}.json",
        replay_cmd_template=f"./check {pid} --replay {{path}}",
        engine=s.get("engine", "coq-props+corr-direct"),
        level_claimed=dict(category=norm_level(s.get("level", "proof")), text=s["text"], design_ref=s.get("design_ref", "DESIGN.md section 6")),
        level_note=s["level_note"],
        technique=s["technique"],
    ))
hooks_commits = []
hp = os.path.join(ROOT, "checks", "hook_commits.txt")
if os.path.exists(hp):
    hooks_commits = [l.split()[0] for l in open(hp) if l.strip()]
man = dict(
    version=1,
    setup_cmd="./setup.sh",
    hooks=dict(
        guard="gmsol_verif",
        enable='RUSTFLAGS="--cfg gmsol_verif" (set in /verif/harness/.cargo/config.toml; the harness crates depend on /repo crates by path)',
        baseline_off_cmd="cd /repo && cargo nextest run --workspace --no-fail-fast --test-threads 8 --offline || cargo test --workspace --no-fail-fast --offline",
        source_commits=hooks_commits,
        add_only=True,
    ),
    engines=[
        dict(name="coq-props", path="coq/", serves_properties=[c["property_id"] for c in checks], kind_free_text="Coq 8.16.1 theorems over hand-written / translated Gallina models; Print Assumptions allowlist; hygiene grep"),
        dict(name="corr-direct", path="harness/", serves_properties=[c["property_id"] for c in checks], kind_free_text="Rust drivers linking /repo crates by path; cases evaluated against the model and the oracle inside Coq (vm_compute)"),
        dict(name="translate", path="translate/", serves_properties=[c["property_id"] for c in checks if "translate" in c["engine"]], kind_free_text="Python translators from Rust source tables to Gallina, re-run on every check"),
    ],
    checks=checks,
    notes="Single entry point ./check; decision rule in DESIGN.md section 3.1; known findings in known_findings.json.",
    not_applicable=na,
)
json.dump(man, open(os.path.join(ROOT, "MANIFEST.json"), "w"), indent=1)
# merge known/Cxx.json into the single committed known_findings.json (build-time only; checks never write it)
import glob
allf = []
for f in sorted(glob.glob(os.path.join(ROOT, "known", "C*.json"))):
    allf += json.load(open(f)).get("findings", [])
for e in allf:
    if e.get("status") == "fixed" and "line" not in e:
        e["line"] = f"fixed: property={e['property']} {e.get('commit','?')} {e['what']}"
json.dump(dict(findings=allf), open(os.path.join(ROOT, "known_findings.json"), "w"), indent=1)
print(f"{len(checks)} checks, {len(na)} not claimed")
