#!/bin/sh
# tools/run_all_checks.sh [tier] — run every claimed check sequentially on /repo; log verdict + wall time.
T=${1:-quick}; L=/verif/.cache/all-$T.log; : > $L
for p in $(python3 -c "import json; print(' '.join(c['property_id'] for c in json.load(open('/verif/MANIFEST.json'))['checks']))"); do
  s=$(date +%s); out=$(cd /verif && ./check $p --tier $T 2>&1 | grep -E "^(OK|VIOLATION)" | tail -1); e=$(date +%s)
  echo "$p $((e-s))s $out" >> $L
done
echo ALLDONE >> $L
