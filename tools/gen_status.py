#!/usr/bin/env python3
"""Print DESIGN.md section 12 (status per property + which seeded changes each check catches) from the files on disk."""
import glob, importlib.util, json, os, re
ROOT = os.path.dirname(os.path.dirname(os.path.abspath(__file__)))
props = [json.loads(l) for l in open(f"{ROOT}/properties.jsonl")]
known = json.load(open(f"{ROOT}/known_findings.json"))["findings"] if os.path.exists(f"{ROOT}/known_findings.json") else []
print("## 12. Status as built\n")
print("### 12.1 Per property\n")
print("| id | level | theorems | quick cases | known findings | notes |")
print("|---|---|---|---|---|---|")
for p in props:
    pid = p["id"]; f = f"{ROOT}/checks/{pid.lower()}.py"
    if not os.path.exists(f):
        print(f"| {pid} | not claimed | | | | |"); continue
    spec = importlib.util.spec_from_file_location("c", f); m = importlib.util.module_from_spec(spec); spec.loader.exec_module(m); s = m.SPEC
    ev = {}
    try: ev = json.load(open(f"{ROOT}/evidence/{pid}.json"))
    except Exception: pass
    cov = ev.get("coverage", {})
    kf = [f"{k['name']} ({k['status']})" for k in known if k["property"] == pid]
    print(f"| {pid} | {s.get('level','proof')} | {cov.get('discharged','?')}/{cov.get('obligations','?')} | {cov.get('evaluations','?')} | {', '.join(kf) or '-'} | notes/{pid}.md |")
print("\n### 12.2 Seeded changes (written by independent agents from the property text only; each confirmed by the lead: compiles, "
      "all 195 baseline tests pass, demo fails with / passes without the change) and what the checks reported\n")
print("| change | property | what it breaks / needs | check verdict |")
print("|---|---|---|---|")
for d in sorted(glob.glob(f"{ROOT}/seeded/*/")):
    mid = os.path.basename(d.rstrip("/"))
    try: meta = json.load(open(d + "meta.json"))
    except Exception: continue
    ev = {}
    try: ev = json.load(open(d + "eval.json"))
    except Exception: pass
    verd = "; ".join(f"{k}: {'CAUGHT' if v['exit']==1 else 'MISSED'} ({'concrete input' if 'no-failing-input-found' not in v['verdict'] else 'no-failing-input-found'})" for k, v in ev.get("checks", {}).items()) or "not evaluated"
    if glob.glob(d + "eval_before*.json"):
        verd += " — initially MISSED (see eval_before_*.json); check strengthened, re-evaluated"
    wb = re.sub(r"\s+", " ", meta.get("what_breaks", ""))[:260].replace("|", "/")
    nd = re.sub(r"\s+", " ", meta.get("needs_to_manifest", ""))[:200].replace("|", "/")
    print(f"| {mid} | {meta.get('property')} | {wb} — needs: {nd} | {verd} |")
