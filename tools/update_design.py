#!/usr/bin/env python3
"""Rewrite the generated tail of DESIGN.md (sections 12-14) from the files on disk."""
import json, os, subprocess
ROOT = os.path.dirname(os.path.dirname(os.path.abspath(__file__)))
p = f"{ROOT}/DESIGN.md"; s = open(p).read()
MARK = "\n<!-- GENERATED BELOW: tools/update_design.py -->\n"
if MARK in s: s = s[:s.index(MARK)]
out = [MARK]
out.append(subprocess.run(["python3", f"{ROOT}/tools/gen_status.py"], capture_output=True, text=True).stdout)
out.append("\n## 13. Findings on the unchanged tree (known_findings.json)\n\nEach entry was reproduced on the real code by the property's driver (witness quoted); open entries print a `KNOWN-FINDING:` line on every run and are matched by a narrow class predicate (`known_b` in `coq/Cxx/Corr.v`) so that any other failure of the same property is still a VIOLATION; each has a witness lemma `..._refuted` in Coq and the theorem is proved for the complement of the class. `fixed` entries were repaired by a `fix:` commit in /repo and suppress nothing.\n")
kf = json.load(open(f"{ROOT}/known_findings.json"))["findings"]
for e in kf:
    if e.get("status") == "fixed":
        out.append(f"* `{e.get('line')}`\n")
    else:
        out.append(f"* **{e['property']} / class {e['class']} {e['name']}** (open): {e['what']}  \n  witness: {e.get('witness','')}\n")
out.append("\n## 14. Hooks in /repo (guard `--cfg gmsol_verif`, add-only)\n\n")
hp = f"{ROOT}/checks/hook_commits.txt"
if os.path.exists(hp):
    for l in open(hp):
        if l.strip(): out.append("* " + l.strip() + "\n")
out.append("\nPer-property build notes (what is modelled, proved, partial, trusted; which mutations are caught): `notes/Cxx.md`.\n")
open(p, "w").write(s + "".join(out))
