#!/bin/sh
# Regenerate coq/_CoqProject and coq/Makefile from the files on disk.
cd "$(dirname "$0")/../coq" || exit 2
{ echo "-Q . GV"; echo "-arg -w -arg -notation-overridden,-deprecated-hint-without-locality,-deprecated"; find . -name '*.v' ! -path './work/*' | sed 's|^\./||' | LC_ALL=C sort; } > _CoqProject.new
if ! cmp -s _CoqProject.new _CoqProject 2>/dev/null; then mv _CoqProject.new _CoqProject; coq_makefile -f _CoqProject -o Makefile >/dev/null; else rm _CoqProject.new; [ -f Makefile ] || coq_makefile -f _CoqProject -o Makefile >/dev/null; fi
