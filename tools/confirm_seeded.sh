#!/bin/sh
# tools/confirm_seeded.sh <mutid>: in the warm scratch worktree /tmp/wt/confirm apply the patch, build, run the
# repository's test-suite (nextest, whole workspace, offline), report pass/fail counts vs the 195 baseline, revert.
M="$1"; SRC=/tmp/mut/$M; [ -f /verif/seeded/$M/patch.diff ] && SRC=/verif/seeded/$M
cd /tmp/wt/confirm || exit 2
exec 9>/tmp/wt/confirm.lock; flock 9
git checkout -q -- . && git apply "$SRC/patch.diff" || { echo "patch does not apply"; exit 2; }
cargo nextest run --workspace --no-fail-fast --test-threads 8 --offline > /tmp/wt/confirm-$M.log 2>&1
grep -E "Summary|tests run" /tmp/wt/confirm-$M.log | tail -2
grep -E "^\s+(FAIL|SIGABRT|TIMEOUT)" /tmp/wt/confirm-$M.log | sort -u | head -20
git checkout -q -- .
