#!/usr/bin/env python3
"""tools/seeded_runner.py mutid:Cxx[,Cyy] ...   keeps sequentially (one confirm worktree), evaluates up to 2 in parallel."""
import os, subprocess, sys, threading, time, queue
items = [(a.split(":")[0], a.split(":")[1].split(",")) for a in sys.argv[1:]]
LOG = "/tmp/mut/queue.log"
lk = threading.Lock()
def log(s):
    with lk:
        open(LOG, "a").write(s + "\n")
evq = queue.Queue()
def keeper():
    for m, ps in items:
        if not os.path.exists(f"/verif/seeded/{m}/meta.json"):
            log(f"=== keep {m} {time.strftime('%T')}")
            p = subprocess.run(["python3", "/verif/tools/keep_seeded.py", m], capture_output=True, text=True)
            log(p.stdout[-1500:] + p.stderr[-500:])
            if p.returncode != 0:
                log(f"KEEP FAILED {m}"); continue
        subprocess.run(["git", "-C", "/repo", "worktree", "remove", "--force", f"/tmp/wt/m{m}"], capture_output=True)
        evq.put((m, ps))
    evq.put(None); evq.put(None)
def evaluator():
    while True:
        it = evq.get()
        if it is None: return
        m, ps = it
        if os.path.exists(f"/verif/seeded/{m}/eval.json"): continue
        log(f"=== eval {m} {ps} {time.strftime('%T')}")
        p = subprocess.run(["python3", "/verif/tools/eval_seeded.py", m] + ps, capture_output=True, text=True)
        log(p.stdout[-2500:] + p.stderr[-500:])
        log(f"=== done {m} {time.strftime('%T')}")
ts = [threading.Thread(target=keeper), threading.Thread(target=evaluator), threading.Thread(target=evaluator)]
[t.start() for t in ts]; [t.join() for t in ts]
