#!/usr/bin/env python3
"""Print the prompt for an independent 'seeded change' agent for property Cxx (property text only, nothing from /verif)."""
import json, sys
pid = sys.argv[1]; n = sys.argv[2] if len(sys.argv) > 2 else "a"
for l in open('/verif/properties.jsonl'):
    p = json.loads(l)
    if p['id'] == pid: break
wt = f"/tmp/wt/m{pid}{n}"
print(f"""You are testing how well a verification effort can detect subtle bugs.  You get ONE semantic property of the
Rust repository gmsol-labs/gmx-solana (GMX perpetuals exchange on Solana) and your own scratch git worktree of it at
{wt} (a full checkout; work ONLY there; never touch /repo or /verif; no network; `cargo ... --offline`).

Property {pid}: {p['title']}
Statement: {p['statement']}
Quantified over: {p['quantifier']['text']}
Code that is meant to make it hold: files {', '.join(p['anchors']['files'])}; mechanisms: {json.dumps(p['anchors'].get('mechanism', []))}

Task: write a small change to the repository's source (not to its tests) that BREAKS this property while the code still
compiles and ALL existing tests still pass.  It must be a realistic bug (the kind a maintainer could introduce in a
refactor or an "optimisation"), and it must need something specific to manifest — a particular boundary input, a multi-step
sequence of operations, an unusual configuration, a rounding boundary, two cooperating sites that each look fine alone —
NOT something ordinary use would expose at once, and not a compile-time or trivially always-wrong change.  Avoid changes
that only alter error messages, logging or performance.  Keep the diff small (typically 1-10 lines).  Variant letter: {n}
(if 'b' or later, make it a different kind of bug in a different function than the most obvious candidate).

Deliver in /tmp/mut/{pid}{n}/ :
  patch.diff   `git -C {wt} diff` of your change to the source (source files only)
  demo.rs (or demo test / small program + README.txt saying exactly how to run it) — a demonstration that FAILS with
               your change and PASSES without it, showing the property being violated through the real code's public
               behaviour (e.g. a `#[test]` you append to an existing test module or an examples/ file or a tiny crate
               under {wt}/scratch-demo with a path dependency; include the exact command line).  The demo is NOT part
               of patch.diff.
  meta.json    {{"property":"{pid}","variant":"{n}","files_changed":[...],"what_breaks":"...","needs_to_manifest":"...",
               "demo_cmd":"...","tests_run":"<the exact cargo test commands you ran and their pass counts>"}}
Confirm yourself, in the worktree: (1) with the change, the existing tests of every crate you touched and of the crates
that directly depend on it still pass (`cargo test -p <crate> --offline`; the workspace's crates are gmsol-model,
gmsol-utils, gmsol-store, gmsol-programs, gmsol-sdk, gmsol-solana-utils, gmsol-chainlink-datastreams, gmsol-treasury,
gmsol-timelock, gmsol-competition, gmsol-liquidity-provider ...; build only what you need, builds are slow and the machine
is shared; some network-dependent tests (names containing rpc / send_request / get_token_accounts / parse_url) fail even
without any change — ignore those); (2) the demo fails with the change; (3) after reverting ONLY your source change (`git diff -- <src files> > /tmp/mut/<id>/patch.diff; git apply -R /tmp/mut/<id>/patch.diff`; NEVER use `git stash` — the stash is shared by all worktrees of this repository and other agents use it concurrently) the demo
passes.  Leave the worktree with your change applied and the demo present.  Do not read anything under /verif.
Reply with a 5-line summary (what you changed, why it slips past the tests, how it manifests).""")
