#!/bin/sh
# tools/seeded_queue.sh mutid:Cxx[,Cyy] ...  — confirm+keep, then evaluate each, sequentially; log to /tmp/mut/queue.log
for item in "$@"; do
  m=${item%%:*}; ps=$(echo ${item#*:} | tr ',' ' ')
  echo "=== $m ($ps) $(date +%T)" >> /tmp/mut/queue.log
  if [ ! -f /verif/seeded/$m/meta.json ]; then python3 /verif/tools/keep_seeded.py $m >> /tmp/mut/queue.log 2>&1 || { echo "KEEP FAILED $m" >> /tmp/mut/queue.log; continue; }; fi
  git -C /repo worktree remove --force /tmp/wt/m$m >/dev/null 2>&1
  python3 /verif/tools/eval_seeded.py $m $ps >> /tmp/mut/queue.log 2>&1
  echo "=== done $m $(date +%T)" >> /tmp/mut/queue.log
done
