#!/usr/bin/env python3
"""tools/keep_seeded.py <mutid>: confirm an independently written breaking change, then keep it under /verif/seeded/<mutid>/.
 1. in the author's worktree /tmp/wt/m<mutid>: demo fails with the change, passes with the change stashed
 2. in /tmp/wt/confirm: patch applies to HEAD, whole test-suite (nextest, workspace, offline): all 195 baseline tests pass
"""
import json, os, re, shutil, subprocess, sys
mid = sys.argv[1]
src = f"/tmp/mut/{mid}"; wt = f"/tmp/wt/m{mid}"
meta = json.load(open(f"{src}/meta.json"))
cmd = re.sub(r"\s{2,}\(.*$", "", meta["demo_cmd"]).strip()
def sh(c, cwd=None):
    p = subprocess.run(c, shell=True, cwd=cwd, capture_output=True, text=True)
    return p.returncode, (p.stdout + p.stderr)
rc1, o1 = sh(cmd)
r0, _ = sh(f"git apply -R {src}/patch.diff", cwd=wt)
rc2, o2 = sh(cmd)
sh(f"git apply {src}/patch.diff", cwd=wt)
ran = sum(int(x) for x in re.findall(r"test result: ok\. (\d+) passed", o2))
if r0 != 0 or ("test result" in o2 and ran == 0):
    print("could not revert the change or the demo ran no test without it", r0, ran); rc2 = 99
print("demo with change: exit", rc1, "| without change: exit", rc2)
conf = dict(demo_with_change_exit=rc1, demo_without_change_exit=rc2)
if not (rc1 != 0 and rc2 == 0):
    print("DEMO NOT CONFIRMED"); print(o1[-1500:]); print(o2[-1500:]); sys.exit(1)
rc, o = sh(f"/verif/tools/confirm_seeded.sh {mid}")
print(o[-1500:])
log = open(f"/tmp/wt/confirm-{mid}.log").read()
base = set(json.load(open("/root/.vp/BASELINE.json"))["stable_pass"])
m = re.search(r"(\d+) tests run: (\d+) passed.*?(?:(\d+) failed)?", log)
failed = set(re.findall(r"^\s+(?:FAIL|SIGABRT|SIGSEGV|TIMEOUT)\s+\[[^\]]*\]\s+(\S+)\s+(\S+)", log, re.M))
failed_names = {f"{a}::{b}" for a, b in failed}
bad = sorted(n for n in failed_names if n in base)
conf.update(suite_summary=m.group(0) if m else "?", baseline_failures=bad)
print("suite:", conf["suite_summary"], "baseline tests failing:", bad)
if bad or not m:
    print("SUITE NOT CONFIRMED"); sys.exit(1)
dst = f"/verif/seeded/{mid}"
os.makedirs(dst, exist_ok=True)
for f in os.listdir(src):
    if os.path.isfile(os.path.join(src, f)):
        shutil.copy(os.path.join(src, f), dst)
meta["confirmed_by_lead"] = conf
meta["what_it_needs"] = meta.get("needs_to_manifest")
meta["lead_ran"] = [cmd + " (with change: fails; change stashed: passes)", "cargo nextest run --workspace --no-fail-fast --offline in a scratch worktree with the patch applied: every baseline test passes"]
json.dump(meta, open(f"{dst}/meta.json", "w"), indent=1)
print("kept", dst)
