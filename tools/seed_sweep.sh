#!/bin/sh
# tools/seed_sweep.sh SEED — run every quick check with VERIF_SEED=SEED (false-alarm robustness); evidence restored afterwards.
S=$1; L=/verif/.cache/sweep-$S.log; : > $L
for p in $(python3 -c "import json; print(' '.join(c['property_id'] for c in json.load(open('/verif/MANIFEST.json'))['checks']))"); do
  out=$(cd /verif && VERIF_SEED=$S ./check $p --tier quick 2>&1 | grep -E "^(OK|VIOLATION)" | tail -1)
  echo "$p $out" >> $L
done
cd /verif && git checkout -- evidence
echo ALLDONE >> $L
