#!/usr/bin/env python3
"""Waits for pid argv[1] to exit, then serves /tmp/mut/inbox.txt (lines `mutid:Cxx[,Cyy]`, appended at any time):
keeps sequentially, evaluates up to 2 at a time.  Stops when /tmp/mut/inbox.stop exists and the inbox is drained."""
import os, subprocess, sys, threading, time, queue
pid = int(sys.argv[1])
while os.path.exists(f"/proc/{pid}"): time.sleep(20)
LOG = "/tmp/mut/queue.log"; lk = threading.Lock()
def log(s):
    with lk: open(LOG, "a").write(s + "\n")
evq = queue.Queue(); seen = set()
def keeper():
    while True:
        lines = [l.strip() for l in open("/tmp/mut/inbox.txt")] if os.path.exists("/tmp/mut/inbox.txt") else []
        new = [l for l in lines if l and l not in seen]
        if not new:
            if os.path.exists("/tmp/mut/inbox.stop"): break
            time.sleep(30); continue
        for l in new:
            seen.add(l); m, ps = l.split(":")[0], l.split(":")[1].split(",")
            if not os.path.exists(f"/verif/seeded/{m}/meta.json"):
                log(f"=== keep {m} {time.strftime('%T')}")
                p = subprocess.run(["python3", "/verif/tools/keep_seeded.py", m], capture_output=True, text=True)
                log(p.stdout[-1500:] + p.stderr[-500:])
                if p.returncode != 0: log(f"KEEP FAILED {m}"); continue
            subprocess.run(["git", "-C", "/repo", "worktree", "remove", "--force", f"/tmp/wt/m{m}"], capture_output=True)
            evq.put((m, ps))
    evq.put(None); evq.put(None)
def evaluator():
    while True:
        it = evq.get()
        if it is None: return
        m, ps = it
        if os.path.exists(f"/verif/seeded/{m}/eval.json"): continue
        log(f"=== eval {m} {ps} {time.strftime('%T')}")
        p = subprocess.run(["python3", "/verif/tools/eval_seeded.py", m] + ps, capture_output=True, text=True)
        log(p.stdout[-2500:] + p.stderr[-500:]); log(f"=== done {m} {time.strftime('%T')}")
ts = [threading.Thread(target=keeper), threading.Thread(target=evaluator), threading.Thread(target=evaluator)]
[t.start() for t in ts]; [t.join() for t in ts]
