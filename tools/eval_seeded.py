#!/usr/bin/env python3
"""tools/eval_seeded.py <mutid> <Cxx> [Cyy ...] [--src DIR]
Apply a seeded change (patch.diff in /verif/seeded/<mutid>/ or /tmp/mut/<mutid>/) to a fresh scratch worktree of
/repo's HEAD and run the given checks against it (VERIF_REPO).  /repo itself is never touched."""
import json, os, shutil, subprocess, sys, time
args = sys.argv[1:]
src = None
if "--src" in args:
    i = args.index("--src"); src = args[i + 1]; del args[i:i + 2]
mid, pids = args[0], args[1:]
src = src or next(d for d in (f"/verif/seeded/{mid}", f"/tmp/mut/{mid}") if os.path.exists(os.path.join(d, "patch.diff")))
wt = f"/tmp/wt/eval-{mid}"
subprocess.run(["git", "-C", "/repo", "worktree", "remove", "--force", wt], capture_output=True)
subprocess.run(["git", "-C", "/repo", "worktree", "add", "--detach", wt, "HEAD", "-q"], check=True)
res = dict(mutation=mid, repo_head=subprocess.run(["git", "-C", "/repo", "rev-parse", "--short", "HEAD"], capture_output=True, text=True).stdout.strip(), checks={})
try:
    r = subprocess.run(["git", "-C", wt, "apply", os.path.join(src, "patch.diff")], capture_output=True, text=True)
    if r.returncode != 0:
        print("patch does not apply:", r.stderr); sys.exit(2)
    env = dict(os.environ, VERIF_REPO=wt)
    for pid in pids:
        t = time.time()
        p = subprocess.run(["/verif/check", pid], cwd="/verif", env=env, capture_output=True, text=True)
        out = (p.stdout + p.stderr).strip().split("\n")
        verdict = [l for l in out if l.startswith("VIOLATION") or l.startswith("OK ")]
        res["checks"][pid] = dict(exit=p.returncode, verdict=verdict[-1] if verdict else "?", detail=[l[:400] for l in out[-6:]], wall_s=round(time.time() - t))
        print(pid, "exit", p.returncode, verdict[-1] if verdict else out[-3:])
finally:
    subprocess.run(["git", "-C", "/repo", "worktree", "remove", "--force", wt], capture_output=True)
    import hashlib
    shutil.rmtree(os.path.join("/verif/.cache/alt", hashlib.sha1(wt.encode()).hexdigest()[:10]), ignore_errors=True)
print(json.dumps(res, indent=1))
if os.path.isdir(f"/verif/seeded/{mid}"):
    json.dump(res, open(f"/verif/seeded/{mid}/eval.json", "w"), indent=1)
