"""Generic check driver.

A property's check is described by a module checks/cXX.py exposing SPEC (dict) and
optionally functions pre(ctx) / extra(ctx).  The driver implements the decision rule
of DESIGN.md section 3.1:

  A  proof obligations: the property's Coq files compile (full .vo), every pinned
     theorem's Print Assumptions is inside the allowlist, hygiene grep is clean
  B  correspondence: model(x) == impl(x) on every generated case (evaluated inside Coq)
  C  oracle: the property predicate holds on the implementation's own outputs

and writes evidence/<id>.json.
"""
import fcntl
import hashlib
import importlib.util
import json
import os
import re
import subprocess
import sys
import time
from concurrent.futures import ThreadPoolExecutor

ROOT = os.path.dirname(os.path.dirname(os.path.abspath(__file__)))
COQ = os.path.join(ROOT, "coq")
CACHE = os.path.join(ROOT, ".cache")
TARGET = os.path.join(CACHE, "target")
HARNESS = os.path.join(ROOT, "harness")
REPO = os.environ.get("VERIF_REPO", "/repo").rstrip("/")
ALT = REPO != "/repo"  # evaluation against a scratch worktree (seeded-change testing): own crate copies + target dir
FORBIDDEN = re.compile(
    r"\b(Admitted|admit|Axiom|Axioms|Parameter|Parameters|Conjecture|Conjectures|Hypothesis|Hypotheses|Variable|Variables|"
    r"Admit Obligations|bypass_check|Unset Guard Checking|Unset Positivity Checking|Unset Universe Checking|type-in-type|impredicative-set|native_compute)\b"
)
# axioms of Coq's standard library that may appear (each must be named in the trusted base)
AXIOM_ALLOW = {
    "functional_extensionality_dep",
    "FunctionalExtensionality.functional_extensionality_dep",
    "Eqdep.Eq_rect_eq.eq_rect_eq",
    "Classical_Prop.classic",
    "ProofIrrelevance.proof_irrelevance",
    "JMeq.JMeq_eq",
}
SHARD = 250
TRUSTED_BASE_COMMON = [
    "Coq 8.16.1 kernel and vm_compute (no native_compute)",
    "hand-written Gallina model tied to the code by the differential correspondence check (generator reach bounds the tie)",
    "Rust harness printers / Coq case syntax; rustc; the repository's third-party crates",
]


LEVELS = ["exploration", "fault_enumeration", "model_checking", "proof", "translation_validation", "other"]


def norm_level(l):
    if l in LEVELS:
        return l
    for k in LEVELS:
        if l.startswith(k):
            return k
    return "other"


def log(*a):
    print(*a, flush=True)


class Lock:
    def __init__(self, name):
        os.makedirs(CACHE, exist_ok=True)
        self.path = os.path.join(CACHE, name + ".lock")

    def __enter__(self):
        self.f = open(self.path, "w")
        fcntl.flock(self.f, fcntl.LOCK_EX)
        return self

    def __exit__(self, *a):
        fcntl.flock(self.f, fcntl.LOCK_UN)
        self.f.close()


def run(cmd, cwd=None, timeout=3600, env=None, input=None):
    e = dict(os.environ)
    e.setdefault("CARGO_NET_OFFLINE", "true")
    if env:
        e.update(env)
    p = subprocess.run(cmd, cwd=cwd, timeout=timeout, env=e, input=input, stdout=subprocess.PIPE, stderr=subprocess.STDOUT, text=True, shell=isinstance(cmd, str))
    return p.returncode, p.stdout


def load_spec(pid):
    path = os.path.join(ROOT, "checks", pid.lower() + ".py")
    spec = importlib.util.spec_from_file_location("check_" + pid, path)
    m = importlib.util.module_from_spec(spec)
    spec.loader.exec_module(m)
    return m


# ---------------------------------------------------------------- hygiene
def coq_sources(dirs):
    out = []
    for d in dirs:
        p = os.path.join(COQ, d)
        if os.path.isfile(p):
            out.append(p)
            continue
        for r, _, fs in os.walk(p):
            for f in sorted(fs):
                if f.endswith(".v"):
                    out.append(os.path.join(r, f))
    return out


def strip_comments(s):
    out, depth, i = [], 0, 0
    while i < len(s):
        if s.startswith("(*", i):
            depth += 1
            i += 2
        elif s.startswith("*)", i) and depth:
            depth -= 1
            i += 2
        else:
            if not depth:
                out.append(s[i])
            i += 1
    return "".join(out)


def hygiene(dirs):
    """Forbidden declarations anywhere in the development (Section-local Variable /
    Hypothesis / Context are allowed only inside a Section; we check nesting)."""
    bad = []
    for f in coq_sources(dirs):
        src = strip_comments(open(f).read())
        depth = 0
        for ln, line in enumerate(src.split("\n"), 1):
            if re.match(r"\s*(Section|Module Type)\s", line):
                depth += 1
            if re.match(r"\s*End\s", line) and depth:
                depth -= 1
            for m in FORBIDDEN.finditer(line):
                w = m.group(1)
                if w in ("Variable", "Variables", "Hypothesis", "Hypotheses") and depth > 0:
                    continue
                bad.append(f"{os.path.relpath(f, ROOT)}:{ln}: {w}")
    return bad


# ---------------------------------------------------------------- coq build
def coq_make(targets, timeout=1800):
    with Lock("coq"):
        run([os.path.join(ROOT, "tools", "gen_coqproject.sh")])
        cmd = ["timeout", str(timeout), "make", "-C", COQ, "-j16"] + targets
        rc, out = run(cmd, timeout=timeout + 60)
    return rc, out, " ".join(cmd)


def vo_targets(dirs):
    return [os.path.relpath(f, COQ)[:-2] + ".vo" for f in coq_sources(dirs)]


def theorem_names(props_file):
    src = strip_comments(open(os.path.join(COQ, props_file)).read())
    return re.findall(r"^\s*Theorem\s+([A-Za-z0-9_']+)", src, re.M)


def print_assumptions(pid, props_file, names, workdir):
    """Returns {theorem: [axioms]} by running coqc on a generated file."""
    mod = "GV." + props_file[:-2].replace("/", ".")
    lines = [f"From GV Require Import lib.Base.", f"Require Import {mod}.", "Require Import Coq.Strings.String.", "Open Scope string_scope."]
    for n in names:
        lines.append(f'Eval compute in ("@@{n}").')
        lines.append(f"Print Assumptions {n}.")
    f = os.path.join(workdir, f"assump_{pid}.v")
    open(f, "w").write("\n".join(lines) + "\n")
    rc, out = run(["timeout", "600", "coqc", "-noglob", "-Q", COQ, "GV", f], cwd=workdir)
    res = {}
    if rc != 0:
        return None, out
    cur = None
    for line in out.split("\n"):
        m = re.search(r'"@@([A-Za-z0-9_\']+)"', line)
        if m:
            cur = m.group(1)
            res[cur] = []
            continue
        if cur is None:
            continue
        m = re.match(r"^([A-Za-z_][A-Za-z0-9_'.]*)\s*:", line)
        if m and not line.startswith(" "):
            res[cur].append(m.group(1))
    return res, out


# ---------------------------------------------------------------- harness
def alt_base():
    return os.path.join(CACHE, "alt", hashlib.sha1(REPO.encode()).hexdigest()[:10])


def target_dir():
    return os.path.join(alt_base(), "target") if ALT else TARGET


def alt_crate(crate):
    """Copy the harness crates next to an alternative target dir with /repo paths rewritten."""
    base = alt_base()
    os.makedirs(base, exist_ok=True)
    if not os.path.exists(os.path.join(base, "target")) and os.path.exists(TARGET):
        subprocess.run(["cp", "-a", TARGET, os.path.join(base, "target")])
    for name in ("harness", "harness-sdk"):
        src = os.path.join(ROOT, name)
        if not os.path.isdir(src):
            continue
        dst = os.path.join(base, name)
        subprocess.run(["rsync", "-a", "--delete", "--exclude", "target", "--exclude", "Cargo.lock", src + "/", dst + "/"])
        for rel in ("Cargo.toml", ".cargo/config.toml"):
            f = os.path.join(dst, rel)
            if os.path.exists(f):
                t = open(f).read().replace('"/repo/', '"' + REPO + "/").replace("/verif/.cache/target", os.path.join(base, "target"))
                open(f, "w").write(t)
    return os.path.join(base, os.path.basename(crate))


def cargo_build(bins, release=False, crate=HARNESS, timeout=3600):
    if ALT:
        crate = alt_crate(crate)
    lock_src = os.path.join(REPO, "Cargo.lock")
    lock_dst = os.path.join(crate, "Cargo.lock")
    with Lock("cargo-alt" if ALT else "cargo"):
        if not os.path.exists(lock_dst):
            subprocess.run(["cp", lock_src, lock_dst])
        cmd = ["cargo", "build", "--offline", "--quiet"] + (["--release"] if release else [])
        for b in bins:
            cmd += ["--bin", b]
        rc, out = run(cmd, cwd=crate, timeout=timeout)
        if rc != 0 and "Cargo.lock" in out:
            subprocess.run(["cp", lock_src, lock_dst])
            rc, out = run(cmd, cwd=crate, timeout=timeout)
    errs = "\n".join(l for l in out.split("\n") if l.startswith("error") or "panicked" in l)
    return rc, out, errs


def bin_path(name, release=False):
    return os.path.join(target_dir(), "release" if release else "debug", name)


def run_bin(name, seed, n, release=False, extra=(), timeout=3600):
    cmd = [bin_path(name, release), "--seed", str(seed), "--n", str(n)] + list(extra)
    p = subprocess.run(cmd, stdout=subprocess.PIPE, stderr=subprocess.PIPE, text=True, timeout=timeout)
    lines = [l for l in p.stdout.split("\n") if "\t" in l]
    return p.returncode, lines, p.stderr[-2000:]


# ---------------------------------------------------------------- case evaluation inside Coq
def eval_shard(args):
    corr_mod, idx, terms, workdir, prelude = args
    name = f"cases_{idx}"
    f = os.path.join(workdir, name + ".v")
    with open(f, "w") as fh:
        fh.write(f"Require Import GV.lib.Base {corr_mod}.\nOpen Scope Z_scope.\n{prelude}\n")
        fh.write("Definition cases : list case := [\n")
        fh.write(";\n".join(terms))
        fh.write("\n].\nEval vm_compute in (run_cases corr_b oracle_b known_b cases).\n")
    rc, out = run(["timeout", "900", "coqc", "-noglob", "-Q", COQ, "GV", f], cwd=workdir)
    for ext in (".vo", ".vok", ".vos", ".glob"):
        try:
            os.remove(os.path.join(workdir, name + ext))
        except OSError:
            pass
    if rc != 0:
        return idx, None, out[-3000:]
    flat = " ".join(out.split())
    m = re.search(r"= \(\s*(\[.*?\])\s*,\s*(\[.*?\])\s*,\s*(\[.*\])\s*\)\s*:", flat)
    if not m:
        return idx, None, "unparsed coqc output: " + flat[-500:]
    corr = [int(x) for x in re.findall(r"-?\d+", m.group(1))]
    orc = [int(x) for x in re.findall(r"-?\d+", m.group(2))]
    kn = [(int(a), int(b)) for a, b in re.findall(r"\(\s*(\d+)\s*,\s*(\d+)\s*\)", m.group(3))]
    return idx, (corr, orc, kn), ""


def eval_cases(corr_mod, lines, workdir, prelude="", shard=SHARD):
    """lines: 'tag\\tterm'.  Returns dict(corr=[i], oracle=[i], known=[(i,k)], errors=[...])."""
    terms = [l.split("\t", 1)[1] for l in lines]
    jobs = []
    for s in range(0, len(terms), shard):
        jobs.append((corr_mod, s // shard, terms[s : s + shard], workdir, prelude))
    res = dict(corr=[], oracle=[], known=[], errors=[])
    with ThreadPoolExecutor(max_workers=16) as ex:
        for idx, r, err in ex.map(eval_shard, jobs):
            if r is None:
                res["errors"].append(f"shard {idx}: {err}")
                continue
            base = idx * shard
            res["corr"] += [base + i for i in r[0]]
            res["oracle"] += [base + i for i in r[1]]
            res["known"] += [(base + i, k) for i, k in r[2]]
    return res


# ---------------------------------------------------------------- known findings
def load_known(pid):
    p = os.path.join(ROOT, "known_findings.json")
    if not os.path.exists(p):
        return {}
    d = json.load(open(p))
    return {int(e["class"]): e for e in d.get("findings", []) if e["property"] == pid}


# ---------------------------------------------------------------- main flow
class Ctx:
    pass


def check(pid, tier="quick", seed=None, replay=None):
    t0 = time.time()
    mod = load_spec(pid)
    spec = mod.SPEC
    if seed is None:
        seed = int(os.environ.get("VERIF_SEED", "1"))
    tier = os.environ.get("VERIF_TIER", tier) if tier is None else tier
    ctx = Ctx()
    ctx.pid, ctx.tier, ctx.seed, ctx.spec = pid, tier, seed, spec
    workdir = os.path.join(CACHE, "work", f"{pid}-{os.getpid()}")
    os.makedirs(workdir, exist_ok=True)
    ctx.workdir = workdir
    ctx.notes = []  # free-form notes into evidence
    ctx.extra_cov = {}
    problems_A, problems_B = [], []
    violations = []  # (desc, replay_payload, no_input_found)
    known_hits = {}
    checker_cmds = []

    coq_dirs = spec.get("coq_dirs", ["lib", pid])
    # ---- pre step (translators etc.)
    if hasattr(mod, "pre"):
        try:
            mod.pre(ctx)
        except Exception as e:  # translator failure is a hard error
            problems_A.append(f"pre-step/translator failed: {e!r}")

    # ---- A: hygiene + build + assumptions
    bad = hygiene(coq_dirs + spec.get("hygiene_extra", []))
    if bad:
        problems_A.append("forbidden declarations: " + "; ".join(bad[:10]))
    props_file = spec.get("props_file", f"{pid}/Props.v")
    corr_file = spec.get("corr_file", f"{pid}/Corr.v")
    model_targets = [corr_file[:-2] + ".vo"] if corr_file else []
    rc, out, cmd = coq_make(model_targets) if model_targets else (0, "", "")
    model_ok = rc == 0
    if not model_ok:
        problems_B.append("model/Corr failed to compile: " + out[-1500:])
    rc, out, cmd = coq_make(vo_targets(coq_dirs))
    checker_cmds.append(cmd)
    names = theorem_names(props_file)
    obligations = len(names)
    discharged = 0
    axioms_seen = set()
    if rc != 0:
        m = re.search(r'File "([^"]+)", line (\d+).*?\nError:(.*?)(?:\n\n|\Z)', out, re.S)
        problems_A.append("proof build failed: " + (f"{m.group(1)}:{m.group(2)}: {m.group(3).strip()[:600]}" if m else out[-1200:]))
    else:
        ass, aout = print_assumptions(pid, props_file, names, workdir)
        checker_cmds.append(f"coqc Print Assumptions x{len(names)}")
        if ass is None:
            problems_A.append("Print Assumptions run failed: " + aout[-800:])
        else:
            for n in names:
                ax = ass.get(n)
                if ax is None:
                    problems_A.append(f"theorem {n}: no Print Assumptions output")
                    continue
                notallowed = [a for a in ax if a not in AXIOM_ALLOW and a.split(".")[-1] not in AXIOM_ALLOW]
                axioms_seen.update(ax)
                if notallowed:
                    problems_A.append(f"theorem {n} depends on non-allowlisted axioms {notallowed}")
                else:
                    discharged += 1
    if tier == "thorough" and rc == 0 and spec.get("coqchk", True):
        lib = "GV." + props_file[:-2].replace("/", ".")
        rc2, out2 = run(["timeout", "1800", "coqchk", "-silent", "-o", "-Q", COQ, "GV", lib], timeout=1900)
        checker_cmds.append(f"coqchk -silent -o -Q coq GV {lib}")
        ctx.notes.append("coqchk: " + ("ok" if rc2 == 0 else "FAILED") + " " + " ".join(out2.split())[-400:])
        if rc2 != 0:
            problems_A.append("coqchk failed: " + out2[-600:])

    # ---- B/C: correspondence + oracle
    lines = []
    dist = {}
    ev = dict(corr=[], oracle=[], known=[], errors=[])
    n_cases = 0
    if spec.get("bin"):
        release = False
        rc, out, errs = cargo_build([spec["bin"]], crate=spec.get("crate", HARNESS))
        if rc != 0:
            problems_B.append("harness build failed against the current tree: " + (errs or out)[-1500:])
        else:
            corpus = []
            cdir = os.path.join(ROOT, "corpus", pid)
            if os.path.isdir(cdir):
                for f in sorted(os.listdir(cdir)):
                    corpus += [l.rstrip("\n") for l in open(os.path.join(cdir, f)) if "\t" in l]
            if replay:
                payload = json.load(open(replay))
                lines = [c["line"] for c in payload.get("cases", [])]
            else:
                n = spec.get("cases_thorough", 20000) if tier == "thorough" else spec.get("cases_quick", 2000)
                rcb, gen, err = run_bin(spec["bin"], seed, n, extra=spec.get("bin_args", []))
                if rcb != 0:
                    problems_B.append(f"driver exited {rcb}: {err[-800:]}")
                lines = corpus + gen
                if tier == "thorough" and spec.get("release_too", True):
                    rc, out, errs = cargo_build([spec["bin"]], release=True, crate=spec.get("crate", HARNESS))
                    if rc == 0:
                        rcb, gen2, err = run_bin(spec["bin"], seed + 1, n // 2, release=True, extra=spec.get("bin_args", []))
                        lines += gen2
                        ctx.notes.append(f"release build (overflow checks off) ran {len(gen2)} further cases")
            n_cases = len(lines)
            for l in lines:
                t = l.split("\t", 1)[0]
                dist[t] = dist.get(t, 0) + 1
            if model_ok and lines:
                ev = eval_cases("GV." + corr_file[:-2].replace("/", "."), lines, workdir, shard=spec.get("shard", SHARD))
            # oracle self-test: hand-written outputs of plausible bugs must be flagged
            negf = os.path.join(ROOT, "negative", pid + ".txt")
            if model_ok and os.path.exists(negf) and not replay:
                neg = [l.rstrip("\n") for l in open(negf) if "\t" in l and not l.startswith("#")]
                if neg:
                    evn = eval_cases("GV." + corr_file[:-2].replace("/", "."), neg, workdir, shard=spec.get("shard", SHARD))
                    flagged = set(evn["oracle"]) | set(i for i, _ in evn["known"])
                    missed = [neg[i] for i in range(len(neg)) if i not in flagged]
                    ctx.extra_cov["oracle_selftest"] = dict(negative_cases=len(neg), flagged=len(flagged))
                    if missed or evn["errors"]:
                        problems_B.append("oracle self-test: negative case(s) not flagged: " + "; ".join(missed[:3]) + " ".join(evn["errors"])[:500])
                for e in ev["errors"]:
                    problems_B.append("case evaluation failed: " + e[-800:])
    if hasattr(mod, "extra"):
        try:
            mod.extra(ctx, problems_A, problems_B, violations)
        except Exception as e:
            problems_B.append(f"extra step failed: {e!r}")

    known = load_known(pid)
    for i, k in ev["known"]:
        if k in known:
            known_hits.setdefault(k, []).append(i)
        else:
            ev["oracle"].append(i)
    for i in ev["oracle"][:5]:
        violations.append((f"property predicate fails on the implementation's output for case: {lines[i]}", dict(cases=[dict(index=i, line=lines[i])], kind="oracle"), False))
    if ev["corr"]:
        problems_B.append(f"model and implementation disagree on {len(ev['corr'])} case(s), first: {lines[ev['corr'][0]]}")
    # targeted search when A or B broke but no oracle failure yet
    searched = 0
    if (problems_A or problems_B) and not violations and spec.get("bin") and model_ok and not replay:
        for k in range(1, 4):
            rcb, gen, err = run_bin(spec["bin"], seed * 7919 + k, spec.get("cases_search", 4000), extra=spec.get("bin_args", []))
            if not gen:
                break
            ev2 = eval_cases("GV." + corr_file[:-2].replace("/", "."), gen, workdir, shard=spec.get("shard", SHARD))
            searched += len(gen)
            bad = list(ev2["oracle"]) + [i for i, kk in ev2["known"] if kk not in known]
            if bad:
                i = bad[0]
                violations.append((f"found by targeted search: {gen[i]}", dict(cases=[dict(index=i, line=gen[i])], kind="oracle-search"), False))
                break
    if (problems_A or problems_B) and not violations:
        what = problems_A + problems_B
        violations.append(("no longer shown to hold: " + " | ".join(w[:300] for w in what), dict(broken=what, kind="proof-or-correspondence", searched_cases=searched), True))

    # ---- evidence
    nontrivial = set(l for l in lines if not l.split("\t", 1)[0].endswith("/trivial"))
    samples = []
    seen_tags = set()
    for l in lines:
        t = l.split("\t", 1)[0]
        if t not in seen_tags:
            seen_tags.add(t)
            samples.append(l.replace("\t", " :: "))
        if len(samples) >= 8:
            break
    if not samples:
        samples = [f"obligation {n}" for n in names[:5]] or ["(none)"]
    cov = dict(
        obligations=max(obligations, 1) if obligations else 0,
        discharged=discharged,
        checker_cmd=" ; ".join(checker_cmds) or "make",
        trusted_base=TRUSTED_BASE_COMMON + spec.get("trusted_base", []) + ([f"axioms reported by Print Assumptions: {sorted(axioms_seen)}"] if axioms_seen else ["Print Assumptions: closed under the global context for every pinned theorem"]),
        theorems=names,
        evaluations=n_cases + ctx.extra_cov.get("evaluations", 0),
        distinct_nontrivial=len(nontrivial) + ctx.extra_cov.get("distinct_nontrivial", 0),
        rule=spec.get("rule", "cases are drawn by the driver's boundary-heavy generators from one SplitMix64 state; a case is non-trivial unless the driver tags it /trivial; distinct = distinct case lines"),
        samples=samples + ctx.extra_cov.get("samples", []),
        disagreements_checked=len(ev["corr"]),
        oracle_failures=len(ev["oracle"]),
        known_findings_hit={str(k): len(v) for k, v in known_hits.items()},
        distribution=dist,
        explanation=spec.get("explanation", "") + (" " + " ".join(ctx.notes) if ctx.notes else ""),
    )
    for k, v in ctx.extra_cov.items():
        if k not in ("evaluations", "distinct_nontrivial", "samples"):
            cov[k] = v
    evidence = dict(
        property_id=pid,
        tier=tier,
        seed=seed,
        level=norm_level(spec.get("level", "proof")),
        coverage=cov,
        assumptions=spec.get("assumptions", []),
        wall_s=round(time.time() - t0, 2),
        violations=len(violations),
    )
    outroot = alt_base() if ALT else ROOT  # runs against a scratch worktree never touch the committed evidence
    os.makedirs(os.path.join(outroot, "evidence"), exist_ok=True)
    with open(os.path.join(outroot, "evidence", pid + ".json"), "w") as fh:
        json.dump(evidence, fh, indent=1)

    # ---- report
    for k, e in sorted(known.items()):
        if e.get("status", "open") == "open":
            hit = len(known_hits.get(k, []))
            log(f"KNOWN-FINDING: property={pid} {e['name']}: {e['what']} (hit by {hit} generated case(s) this run)")
    if violations:
        os.makedirs(os.path.join(outroot, "replays"), exist_ok=True)
        rp = os.path.join(outroot, "replays", f"{pid}-{seed}.json")
        with open(rp, "w") as fh:
            json.dump(dict(property=pid, seed=seed, tier=tier, violations=[dict(what=d, **p) for d, p, _ in violations], cases=[c for _, p, _ in violations for c in p.get("cases", [])]), fh, indent=1)
        for d, _, _ in violations[:3]:
            log("  " + d[:1500])
        noinput = all(n for _, _, n in violations)
        log(f"VIOLATION property={pid} replay={rp}" + (" no-failing-input-found" if noinput else ""))
        return 1
    log(f"OK property={pid} tier={tier} theorems={discharged}/{obligations} cases={n_cases} wall={evidence['wall_s']}s")
    try:
        import shutil
        shutil.rmtree(workdir, ignore_errors=True)
    except Exception:
        pass
    return 0
