//! C41 driver: transaction packing of crates/solana-utils (TransactionGroup::add / optimize,
//! AtomicGroup::merge, transaction size estimate vs. the real bincode size).
//!
//! One line per history:
//!   Pack (mkOpts max_size max_ix memo) <luts> <adds> allow <oks> <final> <sizes>
//!   luts  = [(table key, [addresses]); ...]  in BTreeMap order
//!   adds  = the ParallelGroups passed to `add`, in order (Coq records, see coq/C41/Model.v)
//!   oks   = whether each `add` returned Ok
//!   final = groups after `optimize(allow)`: [(p_mergeable, [(payer, a_mergeable, [ix ids])])]
//!   sizes = per final atomic group, in order: (estimate, real bincode size or -1 if it cannot be built)
use gmsol_solana_utils::{
    address_lookup_table::AddressLookupTables,
    instruction_group::{AtomicGroupOptions, GetInstructionsOptions, ParallelGroupOptions},
    transaction_group::{TransactionGroup, TransactionGroupOptions},
    AtomicGroup, ParallelGroup,
};
use gmsol_verif_harness_sdk::*;
use solana_sdk::{
    hash::Hash,
    instruction::{AccountMeta, Instruction},
    pubkey::Pubkey,
};

const CB: i64 = 900;
const MEMO: i64 = 901;

fn cb_program() -> Pubkey {
    solana_sdk::compute_budget::id()
}
fn memo_program() -> Pubkey {
    "MemoSq4gqABAXKb96qnH8TysNcWxMyWCqXgDLGmfcHr".parse().unwrap()
}

/// Key id -> pubkey; big-endian so that pubkey order = id order (BTreeMap order of the tables).
fn key(id: i64) -> Pubkey {
    match id {
        0 => Pubkey::default(),
        CB => cb_program(),
        MEMO => memo_program(),
        _ => {
            let mut b = [0u8; 32];
            b[0] = 0x10;
            b[1..9].copy_from_slice(&(id as u64).to_be_bytes());
            Pubkey::new_from_array(b)
        }
    }
}
fn key_id(k: &Pubkey) -> i64 {
    if *k == Pubkey::default() {
        0
    } else if *k == cb_program() {
        CB
    } else if *k == memo_program() {
        MEMO
    } else {
        let b = k.to_bytes();
        assert_eq!(b[0], 0x10);
        u64::from_be_bytes(b[1..9].try_into().unwrap()) as i64
    }
}

#[derive(Clone)]
struct Ix {
    id: i64,
    prog: i64,
    accs: Vec<(i64, bool, bool)>,
    dlen: usize,
}
#[derive(Clone)]
struct Ag {
    payer: i64,
    ixs: Vec<Ix>,
    merge: bool,
}
#[derive(Clone)]
struct Pg {
    groups: Vec<Ag>,
    merge: bool,
}

fn ix_term(i: &Ix) -> String {
    let accs: Vec<String> = i.accs.iter().map(|(k, s, w)| format!("mkAcct {k} {} {}", b(*s), b(*w))).collect();
    format!("mkIx {} {} [{}] {}", i.id, i.prog, accs.join("; "), i.dlen)
}
fn ag_term(g: &Ag) -> String {
    let ixs: Vec<String> = g.ixs.iter().map(ix_term).collect();
    format!("mkAg {} [{}] {}", g.payer, ixs.join("; "), b(g.merge))
}
fn pg_term(p: &Pg) -> String {
    let gs: Vec<String> = p.groups.iter().map(ag_term).collect();
    format!("mkPg [{}] {}", gs.join("; "), b(p.merge))
}

fn to_instruction(i: &Ix) -> Instruction {
    let mut data = vec![0u8; i.dlen];
    data[..4].copy_from_slice(&(i.id as u32).to_le_bytes());
    Instruction {
        program_id: key(i.prog),
        accounts: i
            .accs
            .iter()
            .map(|(k, s, w)| AccountMeta { pubkey: key(*k), is_signer: *s, is_writable: *w })
            .collect(),
        data,
    }
}
fn ix_id(i: &Instruction) -> i64 {
    u32::from_le_bytes(i.data[..4].try_into().unwrap()) as i64
}

fn to_atomic(g: &Ag) -> AtomicGroup {
    AtomicGroup::with_instructions_and_options(
        &key(g.payer),
        g.ixs.iter().map(to_instruction),
        AtomicGroupOptions { is_mergeable: g.merge },
    )
}

struct Gen {
    keys: i64,
    payers: Vec<i64>,
    progs: Vec<i64>,
    next_id: i64,
}

impl Gen {
    fn ix(&mut self, rng: &mut Rng, payer: i64, big: bool) -> Ix {
        self.next_id += 1;
        // big: around 128 keys served by one lookup table (the compact-u16 boundary of the index lists)
        let n = if big { rng.range(124, 134) } else { rng.below(7) } as usize;
        let all_readonly = rng.chance(1, 2);
        let mut accs = vec![];
        for j in 0..n {
            let k = if big {
                // many distinct keys (mostly inside the big lookup table 2000..)
                2000 + (j as i64)
            } else {
                match rng.below(12) {
                    0 => payer,
                    1 => *rng.pick(&self.payers),
                    2 => *rng.pick(&self.progs),
                    3 => MEMO,
                    _ => 1 + rng.below(self.keys as u64) as i64,
                }
            };
            let signer = !big && (k == payer && rng.chance(1, 2) || rng.chance(1, 10));
            let writable = if big { !all_readonly && rng.chance(1, 8) } else { rng.chance(1, 2) };
            accs.push((k, signer, writable));
        }
        let dmax = if rng.chance(1, 6) { 200 } else { 30 };
        Ix { id: self.next_id, prog: *rng.pick(&self.progs), accs, dlen: 4 + rng.below(dmax) as usize }
    }
}

fn main() {
    let a = args();
    silence_panics();
    let mut rng = Rng::new(a.seed);
    for _ in 0..a.n {
        let keys = rng.range(4, 24) as i64;
        let npay = rng.range(1, 3);
        let mut g = Gen {
            keys,
            payers: (0..npay).map(|_| 1 + rng.below(keys as u64) as i64).collect(),
            progs: (0..rng.range(1, 3)).map(|_| if rng.chance(1, 10) { CB } else { 100 + rng.below(4) as i64 }).collect(),
            next_id: 0,
        };
        let big_case = rng.chance(1, 25);
        // lookup tables (keys 500.., BTreeMap order = id order)
        let mut luts: Vec<(i64, Vec<i64>)> = vec![];
        let nt = if rng.chance(1, 3) { 0 } else { rng.range(1, 3) };
        for t in 0..nt {
            let n = rng.range(1, 10);
            let addrs: Vec<i64> = (0..n)
                .map(|_| match rng.below(10) {
                    0 => *rng.pick(&g.payers),
                    1 => *rng.pick(&g.progs),
                    _ => 1 + rng.below(keys as u64) as i64,
                })
                .collect();
            luts.push((500 + t as i64 * 3 + rng.below(3) as i64, addrs));
        }
        if big_case {
            luts.push((700, (0..150).map(|j| 2000 + j).collect()));
        }
        luts.sort();
        // options
        let max_size = match if big_case { 0 } else { rng.below(5) } {
            0 => 1232,
            1 => rng.range(300, 450),
            2 => rng.range(450, 800),
            _ => rng.range(400, 1232),
        } as usize;
        let max_ix = match if big_case { 0 } else { rng.below(4) } {
            0 => 14,
            _ => rng.range(1, 7),
        } as usize;
        let memo: Option<usize> = match if big_case { 3 } else { rng.below(4) } {
            0 => Some(rng.range(1, 20) as usize),
            1 => Some(rng.range(20, 200) as usize),
            _ => None,
        };
        let allow = rng.chance(1, 2);
        // the groups to add
        let nadd = rng.range(1, 6);
        let mut adds: Vec<Pg> = vec![];
        for _ in 0..nadd {
            let single = rng.chance(3, 5);
            let nag = if single { 1 } else if rng.chance(1, 12) { 0 } else { rng.range(2, 3) };
            let mut groups = vec![];
            for _ in 0..nag {
                let payer = *rng.pick(&g.payers);
                let nix = match rng.below(10) {
                    0 => 0,
                    1 => rng.range(3, 8),
                    2 => max_ix as u64,
                    _ => rng.range(1, 3).min(max_ix as u64),
                };
                let mut ixs = vec![];
                for j in 0..nix {
                    let big = big_case && j == 0 && rng.chance(1, 3);
                    ixs.push(g.ix(&mut rng, payer, big));
                }
                groups.push(Ag { payer, ixs, merge: !rng.chance(1, 6) });
            }
            adds.push(Pg { groups, merge: !rng.chance(1, 6) });
        }

        // ---- run the real code ----
        let alts: AddressLookupTables =
            luts.iter().map(|(k, v)| (key(*k), v.iter().map(|x| key(*x)).collect::<Vec<_>>())).collect();
        let memo_s = memo.map(|n| "m".repeat(n));
        let options = TransactionGroupOptions {
            max_transaction_size: max_size,
            max_instructions_per_tx: max_ix,
            memo: memo_s.clone(),
            memo_signers: None,
            extra_compute_units: None,
        };
        let adds2 = adds.clone();
        let out = no_panic(move || {
            let mut tg = TransactionGroup::with_options_and_luts(options, alts);
            let mut oks = vec![];
            for p in &adds2 {
                let pgroup = ParallelGroup::with_options(
                    p.groups.iter().map(to_atomic),
                    ParallelGroupOptions { is_mergeable: p.merge },
                );
                oks.push(tg.add(pgroup).is_ok());
            }
            tg.optimize(allow);
            let build_opts = || GetInstructionsOptions {
                compute_budget: Default::default(),
                memo: memo_s.clone(),
                memo_signers: None,
                extra_compute_units: if memo_s.is_some() { 50_000 } else { 0 },
            };
            let mut fin = vec![];
            let mut sizes = vec![];
            for p in tg.groups() {
                let mut gs = vec![];
                for agroup in p.iter() {
                    let ids: Vec<i64> = agroup.iter().map(ix_id).collect();
                    gs.push(format!("({}, {}, {})", key_id(agroup.payer()), b(agroup.is_mergeable()), zl(&ids)));
                    let est = agroup.transaction_size(true, Some(tg.luts()), build_opts());
                    // sign with null signers for every required signer
                    let mut signed = agroup.clone();
                    let required: Vec<Pubkey> =
                        agroup.iter().flat_map(|i| i.accounts.iter()).filter(|m| m.is_signer).map(|m| m.pubkey).collect();
                    for s in &required {
                        signed.add_signer(s);
                    }
                    let real = signed
                        .partially_signed_transaction_with_blockhash_and_options(Hash::default(), build_opts(), Some(tg.luts()), |_| Ok(()))
                        .map_err(|e| {
                            if std::env::var("C41_SHOW_ERR").is_ok() {
                                eprintln!("build error: {e}");
                            }
                            e
                        })
                        .ok()
                        .map(|tx| bincode::serialize(&tx).unwrap().len() as i64)
                        .unwrap_or(-1);
                    sizes.push(format!("({est}, {})", z(real)));
                }
                fin.push(format!("({}, [{}])", b(p.is_mergeable()), gs.join("; ")));
            }
            (oks, fin, sizes)
        });
        let luts_term: Vec<String> = luts.iter().map(|(k, v)| format!("({k}, {})", zl(v))).collect();
        let adds_term: Vec<String> = adds.iter().map(pg_term).collect();
        let head = format!(
            "Pack (mkOpts {max_size} {max_ix} {}) [{}] [{}] {}",
            oz(memo),
            luts_term.join("; "),
            adds_term.join("; "),
            b(allow)
        );
        match out {
            Some((oks, fin, sizes)) => {
                let oks_t: Vec<&str> = oks.iter().map(|x| b(*x)).collect();
                let tag = if oks.iter().all(|x| *x) { "all-added" } else { "some-rejected" };
                let merged = fin.len() < oks.iter().filter(|x| **x).count();
                emit(
                    &format!("pack/{tag}{}{}", if merged { "-merged" } else { "" }, if big_case { "-big" } else { "" }),
                    &format!("{head} (POk [{}] [{}] [{}])", oks_t.join("; "), fin.join("; "), sizes.join("; ")),
                );
            }
            None => emit("pack/panic", &format!("{head} PPanic")),
        }
    }
}
