//! C43 driver: crates/sdk/src/utils/fixed.rs — integer <-> rust_decimal::Decimal conversions.
//! Case lines:
//!   Rt k num decimals <fwd> <bck>     six round trips (see coq/C43/Model.v `forward`/`backward`)
//!   Back k <dec> decimals <bck>       back conversions on arbitrary Decimals
//!                                     (k = 0 decimal_to_amount, 1 decimal_to_signed_value, 2 decimal_to_value)
use gmsol_sdk::utils::{
    decimal_to_amount, decimal_to_signed_value, decimal_to_value, signed_amount_to_decimal,
    signed_fixed_to_decimal, signed_value_to_decimal, unsigned_amount_to_decimal,
    unsigned_fixed_to_decimal, unsigned_value_to_decimal,
};
use gmsol_verif_harness_sdk::*;
use rust_decimal::Decimal;

const MAX_REPR: u128 = (1u128 << 96) - 1;

fn dec_term(d: &Decimal) -> String {
    format!("(mkDec {} {} {})", b(d.is_sign_negative()), d.mantissa().unsigned_abs(), d.scale())
}

/// `Some(Some(d))` value, `Some(None)` reported `None`, `None` panic.
fn fwd_term(r: &Option<Option<Decimal>>) -> String {
    match r {
        Some(Some(d)) => format!("(FSome {})", dec_term(d)),
        Some(None) => "FNone".into(),
        None => "FPanic".into(),
    }
}

fn err_code(e: &gmsol_sdk::Error) -> u32 {
    let s = e.to_string();
    if s.contains("is too big") {
        1
    } else if s.contains("invalid scale") {
        2
    } else {
        3
    }
}

fn bck_term<T: std::fmt::Display>(r: Option<Result<T, gmsol_sdk::Error>>) -> (String, &'static str) {
    match r {
        None => ("BPanic".into(), "panic"),
        Some(Ok(v)) => (format!("(BRes (Ok {}))", z(v)), "ok"),
        Some(Err(e)) => (format!("(BRes (Err {}))", err_code(&e)), "err"),
    }
}

/// Unsigned operand of up to `bits` bits, biased towards the places where fixed.rs changes behaviour.
fn gen_num(rng: &mut Rng, bits: u32) -> u128 {
    let max: u128 = if bits >= 128 { u128::MAX } else { (1u128 << bits) - 1 };
    let v = match rng.below(12) {
        0 => MAX_REPR.wrapping_add(rng.below(5) as u128).wrapping_sub(2),
        1 => {
            // k * 10^p: trailing zeros decide whether the large-value path loses digits
            let p = rng.below(39) as u32;
            let k = rng.uint(64).max(1);
            k.checked_mul(10u128.pow(p)).unwrap_or(10u128.pow(p))
        }
        2 => {
            // 10^p +- 1 around the digit-count boundaries 10^27 .. 10^38
            let p = rng.range(26, 38) as u32;
            10u128.pow(p).wrapping_add(rng.below(3) as u128).wrapping_sub(1)
        }
        3 => {
            // above 2^96 with a random number of trailing decimal zeros
            let p = rng.below(12) as u32;
            let q = 10u128.pow(p);
            (rng.next128() | (1u128 << rng.range(96, 127))) / q * q
        }
        4 => (1u128 << 127).wrapping_add(rng.below(3) as u128).wrapping_sub(1),
        5 => max - rng.below(3) as u128,
        _ => rng.uint(bits),
    };
    v & max
}

fn gen_decimals(rng: &mut Rng) -> u8 {
    match rng.below(16) {
        0 => 28,
        1 => 29,
        2 => rng.range(29, 48) as u8,
        3 => rng.range(46, 49) as u8,
        4 => rng.range(49, 255) as u8,
        5 => 255,
        6 => 0,
        7 => 20,
        _ => rng.range(0, 28) as u8,
    }
}

fn roundtrip(rng: &mut Rng, k: u64) {
    let decimals = if k >= 4 { 20 } else { gen_decimals(rng) };
    let neg = rng.chance(1, 2);
    let (num_s, f, back, back_tag): (String, Option<Option<Decimal>>, String, &str);
    macro_rules! finish {
        ($num:expr, $fwd:expr, $bk:expr, $dback:expr) => {{
            let num = $num;
            num_s = z(num);
            f = no_panic(move || $fwd(num));
            match &f {
                Some(Some(d)) => {
                    let d = *d;
                    let (s, t) = bck_term(no_panic(move || $bk(d, $dback)));
                    back = s;
                    back_tag = t;
                }
                _ => {
                    back = "BNA".into();
                    back_tag = "na";
                }
            }
        }};
    }
    match k {
        0 => {
            // besides the generic mixture: exactly representable values above 2^96-1
            // (q * 10^e with a 29-digit q that fits 96 bits), with few decimals (rejected although
            // representable) or above i128::MAX (exact Decimal that cannot come back)
            let (n, decimals) = match rng.below(8) {
                0 => {
                    let e = rng.range(1, 9) as u32;
                    let q = 10u128.pow(28) + rng.next128() % (MAX_REPR - 10u128.pow(28) + 1);
                    (q * 10u128.pow(e), rng.range(0, e as u64 + 1) as u8)
                }
                1 => {
                    let e = rng.range(10, 11) as u32;
                    let q = rng.next128() % 10u128.pow(28);
                    (q.checked_mul(10u128.pow(e)).unwrap_or(3 * 10u128.pow(38)), rng.range(e as u64, 30) as u8)
                }
                _ => (gen_num(rng, 128), decimals),
            };
            finish!(n, |n| unsigned_fixed_to_decimal(n, decimals), decimal_to_value, decimals);
            emit_rt(k, &num_s, decimals, &f, &back, back_tag);
            return;
        }
        1 => {
            let m = gen_num(rng, 128);
            let n: i128 = if m > i128::MAX as u128 { i128::MIN.wrapping_add((m & 3) as i128 - 0) } else if neg { -(m as i128) } else { m as i128 };
            finish!(n, |n| signed_fixed_to_decimal(n, decimals), decimal_to_signed_value, decimals)
        }
        2 => finish!(gen_num(rng, 64) as u64, |n| Some(unsigned_amount_to_decimal(n, decimals)), decimal_to_amount, decimals),
        3 => {
            let m = gen_num(rng, 64) as u64;
            let n: i64 = if m > i64::MAX as u64 { i64::MIN.wrapping_add((m & 3) as i64) } else if neg { -(m as i64) } else { m as i64 };
            finish!(n, |n| Some(signed_amount_to_decimal(n, decimals)), decimal_to_signed_value, decimals)
        }
        4 => { finish!(gen_num(rng, 128), |n| Some(unsigned_value_to_decimal(n)), decimal_to_value, 20u8) }
        _ => {
            let m = gen_num(rng, 128);
            let n: i128 = if m > i128::MAX as u128 { i128::MIN.wrapping_add((m & 3) as i128) } else if neg { -(m as i128) } else { m as i128 };
            finish!(n, |n| Some(signed_value_to_decimal(n)), decimal_to_signed_value, 20u8)
        }
    }
    emit_rt(k, &num_s, decimals, &f, &back, back_tag);
}

fn emit_rt(k: u64, num_s: &str, decimals: u8, f: &Option<Option<Decimal>>, back: &str, back_tag: &str) {
    let ftag = match f {
        Some(Some(_)) => "some",
        Some(None) => "none",
        None => "panic",
    };
    emit(
        &format!("rt{k}/{ftag}-{back_tag}"),
        &format!("Rt {k} {num_s} {decimals} {} {back}", fwd_term(f)),
    );
}

fn back(rng: &mut Rng, k: u64) {
    // arbitrary valid Decimal: 96-bit magnitude, scale <= 28, either sign (also negative zero)
    let m = match rng.below(8) {
        0 => 0,
        1 => MAX_REPR - rng.below(3) as u128,
        2 => MAX_REPR / 10 + rng.below(3) as u128 - 1,
        3 => {
            // digits ending in 4/5 at various positions: the half-up rounding boundary of rescale
            let p = rng.below(27) as u32;
            (rng.below(1_000_000) as u128 * 10 + 4 + rng.below(2) as u128) * 10u128.pow(p) + if rng.chance(1, 2) { rng.below(10u64.pow(p.min(18))) as u128 } else { 0 }
        }
        4 => rng.below(100) as u128,
        _ => gen_num(rng, 96),
    } & MAX_REPR;
    let scale = if rng.chance(1, 4) { 28 } else { rng.below(29) as u32 };
    let neg = rng.chance(1, 3);
    let d = Decimal::from_parts(m as u32, (m >> 32) as u32, (m >> 64) as u32, neg, scale);
    let decimals: u8 = match rng.below(10) {
        0 => gen_decimals(rng),
        1 => scale as u8,
        2 => (scale as u8).saturating_sub(1),
        3 => scale as u8 + 1,
        4 => rng.range(28, 70) as u8,
        _ => rng.range(0, 40) as u8,
    };
    let (s, t) = match k {
        0 => bck_term(no_panic(move || decimal_to_amount(d, decimals))),
        1 => bck_term(no_panic(move || decimal_to_signed_value(d, decimals))),
        _ => bck_term(no_panic(move || decimal_to_value(d, decimals))),
    };
    let dir = if (decimals as u32) < scale { "down" } else if decimals as u32 == scale { "same" } else { "up" };
    emit(&format!("back{k}/{dir}-{t}"), &format!("Back {k} {} {decimals} {s}", dec_term(&d)));
}

fn main() {
    let a = args();
    silence_panics();
    let mut rng = Rng::new(a.seed);
    for i in 0..a.n {
        let k = (i as u64) % 9;
        if k < 6 {
            roundtrip(&mut rng, k)
        } else {
            back(&mut rng, k - 6)
        }
    }
}
