//! C42 driver: swap path search of crates/sdk/src/market_graph/mod.rs on graphs with explicit
//! integer edge costs (hook `verif_hooks::set_edge_ln_exchange_rate`).
//!
//! One line per (graph, max_steps, skip_bellman_ford, source):
//!   Search <markets> max_steps skip source ntok <result>
//!   markets = [(long, short, cost long->short, cost short->long); ...]   (market id = position)
//!   result  = SErr e | SOk arb dists preds tos rate_ok
//!     dists/preds: the private vectors of BestSwapPaths (node-index order)
//!     tos: `to(target)` for target = 0..=ntok (ntok itself is an unknown token):
//!          (distance d such that the reported rate is exp(-d), path as market ids)
//!     rate_ok: every reported rate equals exp(-distance[target]) recomputed here
use std::{collections::HashMap, sync::Arc};

use gmsol_programs::{bytemuck::Zeroable, gmsol_store::accounts::Market, model::MarketModel};
use gmsol_sdk::market_graph::{verif_hooks as h, MarketGraph, MarketGraphConfig};
use gmsol_verif_harness_sdk::*;
use rust_decimal::{Decimal, MathematicalOps};
use solana_sdk::pubkey::Pubkey;

fn token_key(t: i64) -> Pubkey {
    let mut b = [0u8; 32];
    b[0] = 1;
    b[1] = t as u8;
    Pubkey::new_from_array(b)
}
fn market_key(m: usize) -> Pubkey {
    let mut b = [0u8; 32];
    b[0] = 2;
    b[1] = m as u8;
    Pubkey::new_from_array(b)
}
fn index_key(m: usize) -> Pubkey {
    let mut b = [0u8; 32];
    b[0] = 3;
    b[1] = m as u8;
    Pubkey::new_from_array(b)
}

#[derive(Clone, Debug)]
struct Mkt {
    long: i64,
    short: i64,
    cl: Option<i64>,
    cs: Option<i64>,
}

fn build(ms: &[Mkt], max_steps: usize) -> MarketGraph {
    let mut g = MarketGraph::with_config(MarketGraphConfig { max_steps, ..Default::default() });
    for (k, m) in ms.iter().enumerate() {
        let mut market = Market::zeroed();
        market.meta.market_token_mint = market_key(k);
        market.meta.index_token_mint = index_key(k);
        market.meta.long_token_mint = token_key(m.long);
        market.meta.short_token_mint = token_key(m.short);
        let fresh = g.insert_market_with_options(MarketModel::from_parts(Arc::new(market), 0), false);
        assert!(fresh);
    }
    for (k, m) in ms.iter().enumerate() {
        // cost = -ln_exchange_rate
        assert!(h::set_edge_ln_exchange_rate(&mut g, &market_key(k), true, m.cl.map(|c| Decimal::new(-c, COST_SCALE))));
        assert!(h::set_edge_ln_exchange_rate(&mut g, &market_key(k), false, m.cs.map(|c| Decimal::new(-c, COST_SCALE))));
    }
    g
}

/// Costs are integers in units of 10^-COST_SCALE (exact Decimal addition; keeps |distance| small:
/// `to()` calls `Decimal::exp`, whose Taylor series overflows and PANICS for |distance| above ~11).
const COST_SCALE: u32 = 2;

fn dec_int(d: &Decimal) -> i128 {
    let mut n = *d;
    n.rescale(COST_SCALE);
    assert_eq!(n, *d, "distance is not a multiple of the cost unit");
    n.mantissa()
}
fn ozd(d: &Option<Decimal>) -> String {
    oz(d.as_ref().map(dec_int))
}

fn run(ms: &[Mkt], max_steps: usize, skip: bool, source: i64, ntok: i64) -> String {
    let g = build(ms, max_steps);
    let mkt_ids: HashMap<Pubkey, usize> = (0..ms.len()).map(|k| (market_key(k), k)).collect();
    let src = token_key(source);
    let paths = match g.best_swap_paths(&src, skip) {
        Ok(p) => p,
        Err(e) => {
            let s = e.to_string();
            let code = if s.contains("not a known collateral token") { 1 } else { 9 };
            return format!("(SErr {code})");
        }
    };
    let arb = match paths.arbitrage_exists() {
        None => "None".to_string(),
        Some(x) => format!("(Some {})", b(x)),
    };
    let dists = h::distances(&paths);
    let preds = h::predecessors(&paths);
    let ds: Vec<String> = dists.iter().map(ozd).collect();
    let ps: Vec<String> = preds
        .iter()
        .map(|p| match p {
            None => "None".to_string(),
            Some((i, m)) => format!("(Some ({}, {}))", i, mkt_ids[m]),
        })
        .collect();
    let mut rate_ok = true;
    let mut tos = vec![];
    for t in 0..=ntok {
        let key = token_key(t);
        let (rate, path) = paths.to(&key);
        // the distance the rate was computed from
        let d = h::node_index(&g, &key).and_then(|ix| dists[ix]);
        let dist_term = match (&rate, &d) {
            (Some(r), Some(d)) => {
                if *r != (-*d).exp() {
                    rate_ok = false;
                }
                oz(Some(dec_int(d)))
            }
            (Some(_), None) => {
                rate_ok = false;
                "None".to_string()
            }
            (None, _) => "None".to_string(),
        };
        let pm: Vec<usize> = path.iter().map(|m| mkt_ids[m]).collect();
        tos.push(format!("({}, {})", dist_term, zl(&pm)));
    }
    format!(
        "(SOk {arb} [{}] [{}] [{}] {})",
        ds.join("; "),
        ps.join("; "),
        tos.join("; "),
        b(rate_ok)
    )
}

fn markets_term(ms: &[Mkt]) -> String {
    let v: Vec<String> = ms
        .iter()
        .map(|m| format!("({}, {}, {}, {})", m.long, m.short, oz(m.cl), oz(m.cs)))
        .collect();
    format!("[{}]", v.join("; "))
}

fn gen_cost(rng: &mut Rng, regime: u64) -> Option<i64> {
    if rng.chance(1, 12) {
        return None;
    }
    Some(match regime {
        0 => rng.range(0, 9) as i64,                       // non-negative: no arbitrage
        1 => rng.range(0, 12) as i64 - 2,                  // a few negative edges
        2 => rng.range(1, 3) as i64,                       // many ties
        _ => rng.range(0, 20) as i64 - 6,                  // negative cycles likely
    })
}

fn main() {
    let a = args();
    if std::env::var("C42_SHOW_PANICS").is_err() {
        silence_panics();
    }
    let mut rng = Rng::new(a.seed);
    for _ in 0..a.n {
        let mut ntok = rng.range(2, 6) as i64;
        let mut nm = rng.range(1, 8) as usize;
        let regime = rng.below(4);
        let mut ms = vec![];
        let structured = rng.chance(1, 3);
        if structured {
            // a cheap chain 0 - 1 - ... - m plus expensive shortcuts: multi-hop routes that beat
            // short ones (in-place relaxation / DFS pruning are sensitive to exactly this shape);
            // inserted forwards or backwards so that node indices run with or against the chain
            let m = rng.range(2, 5) as i64;
            ntok = m + 1;
            let mut chain: Vec<Mkt> = (0..m)
                .map(|i| Mkt { long: i, short: i + 1, cl: Some(rng.below(3) as i64), cs: gen_cost(&mut rng, 0) })
                .collect();
            if rng.chance(1, 3) {
                chain.reverse();
            }
            let nshort = rng.range(1, 3);
            for _ in 0..nshort {
                let a = rng.below(ntok as u64) as i64;
                let b = rng.below(ntok as u64) as i64;
                let mk = Mkt { long: a, short: b, cl: Some(rng.range(3, 15) as i64), cs: gen_cost(&mut rng, 0) };
                let pos = rng.below(chain.len() as u64 + 1) as usize;
                chain.insert(pos, mk);
            }
            ms = chain;
            nm = 0;
        }
        for _ in 0..nm {
            let long = rng.below(ntok as u64) as i64;
            let short = if rng.chance(1, 15) { long } else { rng.below(ntok as u64) as i64 };
            let cl = gen_cost(&mut rng, regime);
            // reverse direction: often the mirror image (no arbitrage within one market)
            let cs = if regime == 1 && rng.chance(1, 2) { cl.map(|c| -c) } else { gen_cost(&mut rng, regime) };
            ms.push(Mkt { long, short, cl, cs });
        }
        let max_steps = match rng.below(8) {
            0 => 0,
            1 => 1,
            2 => 2,
            3 => 3,
            4 => 5,
            _ => rng.range(1, 4),
        } as usize;
        let skip = rng.chance(1, 3);
        let source = match rng.below(20) {
            0 => ntok,
            1 => rng.below(ntok as u64) as i64,
            _ if structured && rng.chance(2, 3) => 0,
            _ => {
                let m = &ms[rng.below(ms.len() as u64) as usize];
                if rng.chance(1, 2) { m.long } else { m.short }
            }
        };
        let term = {
            let ms2 = ms.clone();
            no_panic(move || run(&ms2, max_steps, skip, source, ntok))
        };
        let (res, tag) = match term {
            Some(s) => {
                let t = if s.starts_with("(SErr") {
                    "err"
                } else if s.contains("SOk (Some true)") {
                    "dfs-fallback"
                } else if s.contains("SOk None") {
                    "dfs"
                } else {
                    "bf"
                };
                (s, t)
            }
            None => ("SPanic".to_string(), "panic"),
        };
        emit(
            &format!("search/{tag}"),
            &format!("Search {} {max_steps} {} {source} {ntok} {res}", markets_term(&ms), b(skip)),
        );
    }
}
