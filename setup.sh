#!/bin/sh
# Build everything the checks need, from files on disk only (offline).
set -e
cd "$(dirname "$0")"
export CARGO_NET_OFFLINE=true
mkdir -p .cache evidence replays
tools/gen_coqproject.sh
( cd coq && timeout 3000 make -j16 >/dev/null 2>.make.err || { tail -30 .make.err; echo "setup: coq build reported errors (checks will report them per property)"; } )
[ -f harness/Cargo.lock ] || cp /repo/Cargo.lock harness/Cargo.lock
( cd harness && timeout 3000 cargo build --offline --bins 2>&1 | grep -E "^(error|warning: unused)" | head -20 || true )
if [ -d harness-sdk ]; then
  [ -f harness-sdk/Cargo.lock ] || cp /repo/Cargo.lock harness-sdk/Cargo.lock
  ( cd harness-sdk && timeout 3000 cargo build --offline --bins 2>&1 | grep -E "^error" | head -20 || true )
fi
echo "setup done"
